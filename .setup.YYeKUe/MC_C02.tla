------------------------------ MODULE MC_C02 ------------------------------
(* Trees of the subset, rendered by the independent unparser of XjsGrammar  *)
(* in many layouts: the parser model must return exactly that tree (design  *)
(* level); every (token list, tree) pair is exported for replay on the real *)
(* parser.  Two enumerators share the module:                               *)
(*   spines  every parent/child operator pair and side up to depth Depth    *)
(*           (bottom-up: t' \in Wraps(t)), each put into statement contexts *)
(*   stmts   every sequence of <= MaxStmts statements from Templates, at    *)
(*           top level and as a function body                               *)
EXTENDS XjsPrograms, Json, FiniteSets

CONSTANTS Depth, MaxStmts, Contexts, DeepContexts, DeepRed, SingleBreaksUpTo, Export

VARIABLES t, d, ss
vars == <<t, d, ss>>


Init == \/ t \in Atoms /\ d = 0 /\ ss = <<>>
        \/ MaxStmts > 0 /\ t = Nil /\ d = 0 /\ ss = <<>>
Next == \/ t # Nil /\ d < Depth /\ t' \in Wraps(t) /\ d' = d + 1 /\ UNCHANGED ss
        \/ t = Nil /\ Len(ss) < MaxStmts /\ \E s \in Templates : ss' = Append(ss, s) /\ UNCHANGED <<t, d>>
Spec == Init /\ [][Next]_vars

\* programs of the current state
Programs ==
  IF t # Nil THEN {Ctx(c, t) : c \in (IF d < Depth \/ Depth < 2 THEN Contexts ELSE DeepContexts)}
  ELSE IF Len(ss) = 0 THEN {}
  ELSE (IF TopOK(ss) THEN {Prog(ss)} ELSE {}) \cup {Prog(<<Node("fdecl", "", <<Id("h"), PList(<<>>), Blk(ss)>>)>>)}

Breaks(ts) ==
  {{}, 1..Len(ts)} \cup (IF d <= SingleBreaksUpTo /\ Len(ss) <= 1 THEN {{j} : j \in 2..Len(ts)} ELSE {})

Check(p, red, sep, brk) ==
  LET ts   == RenderProg(p, red, <<>>)
      toks == Layout(ts, sep, brk)
      r    == ParseProgram(DefaultP(toks))
      want == Strip(p)
      ok   == /\ Len(r.errs) = 0 /\ Strip(r.tree) = want
              /\ C02_Yield(toks, r.tree) /\ C02_WF(r.tree)
  IN /\ (ok \/ PrintT(<<"MODELFAIL", ToJson([toks |-> toks, want |-> want, got |-> r.tree, errs |-> r.errs])>>))
     /\ (Export => PrintT(ToJson([toks |-> [j \in 1..Len(toks) |-> [ty |-> toks[j].ty, lit |-> toks[j].lit, nl |-> toks[j].nl]],
                                   want |-> want])))

Inv == \A p \in Programs :
         StmtStartsOK(p, <<>>) =>
           \A red \in (IF t # Nil /\ d = Depth /\ Depth >= 2 THEN DeepRed ELSE BOOLEAN) :
             LET ts == RenderProg(p, red, <<>>) IN
             \A sep \in {1, 2, 3} :
               SepOK(ts, sep) => \A brk \in Breaks(ts) : Check(p, red, sep, brk)
=============================================================================
