------------------------------ MODULE MC_C11M ------------------------------
(* Token-level mutations of valid programs: every statement sequence of     *)
(* <= MaxStmts templates (top level and as a function body), rendered with   *)
(* `;` or line-break separators, and every single-token deletion,           *)
(* duplication, swap with the right neighbour, replacement by and insertion *)
(* of each kind in MutKinds.  The parser model must obey the error contract *)
(* in all four modes on each (design level); each mutated token list is     *)
(* exported for replay on the real parser.                                  *)
EXTENDS XjsPrograms, Json

CONSTANTS MaxStmts, MutKinds, Export

VARIABLES ss
vars == <<ss>>
Init == ss = <<>>
Next == Len(ss) < MaxStmts /\ \E s \in Templates : ss' = Append(ss, s)
Spec == Init /\ [][Next]_vars

Programs == IF Len(ss) = 0 THEN {}
            ELSE {Prog(ss), Prog(<<Node("fdecl", "", <<Id("h"), PList(<<>>), Blk(ss)>>)>>)}

MTk(k) == [ty |-> k, lit |-> (IF k = "IDENT" THEN "z" ELSE IF k = "INT" THEN "7" ELSE ""), nl |-> FALSE, ok |-> TRUE]
\* body = token list without EOF
Mutants(body) ==
  LET n == Len(body) IN
  {SubSeq(body, 1, i - 1) \o SubSeq(body, i + 1, n) : i \in 1..n}
  \cup {SubSeq(body, 1, i) \o SubSeq(body, i, n) : i \in 1..n}
  \cup {SubSeq(body, 1, i - 1) \o <<body[i + 1], body[i]>> \o SubSeq(body, i + 2, n) : i \in 1..(n - 1)}
  \cup {SubSeq(body, 1, i - 1) \o <<MTk(k)>> \o SubSeq(body, i + 1, n) : i \in 1..n, k \in MutKinds}
  \cup {SubSeq(body, 1, i) \o <<MTk(k)>> \o SubSeq(body, i + 1, n) : i \in 0..n, k \in MutKinds}

Modes == {<<FALSE, FALSE>>, <<TRUE, FALSE>>, <<FALSE, TRUE>>, <<TRUE, TRUE>>}

CheckOne(toks) ==
  /\ \A m \in Modes :
       LET r == ParseProgram([DefaultP(toks) EXCEPT !.tolerant = m[1], !.smart = m[2]]) IN
       /\ Assert(NoNilInLists(r.tree), <<"nil in list", toks, m>>)
       /\ Assert(Len(r.errs) = 0 => Complete(r.tree), <<"incomplete without error", toks, m>>)
       /\ Assert(r.ctx = <<"global">>, <<"context not restored", toks, m>>)
  /\ (Export => PrintT(ToJson([toks |-> [j \in 1..Len(toks) |-> [ty |-> toks[j].ty, lit |-> toks[j].lit, nl |-> toks[j].nl]]])))

Inv == \A p \in Programs : \A sep \in {1, 2} :
         LET ts == RenderProg(p, FALSE, <<>>) IN
         SepOK(ts, sep) =>
           LET toks == Layout(ts, sep, {})
               body == SubSeq(toks, 1, Len(toks) - 1)
               eof  == toks[Len(toks)]
           IN \A mb \in Mutants(body) : CheckOne(Append(mb, eof))
=============================================================================
