----------------------------- MODULE Trace_C11 -----------------------------
(* Validation of parse results recorded from the REAL parser.  One ndjson   *)
(* line per execution: {id, toks (the real lexer's tokens), tolerant,       *)
(* smart, res = {tree, err, errors, compile}}.  Verdict: the error contract *)
(* P_C11 on the real result.  Drift: the parser model run on the same       *)
(* tokens gives the same tree and the same error positions.                 *)
EXTENDS XjsGrammar, Json, IOUtils

CONSTANT Shards
Trace == ndJsonDeserialize(IOEnv.VERIF_TRACE)
N == Len(Trace)

VARIABLE t
Init == t \in 1..(IF N < Shards THEN N ELSE Shards)
Next == t + Shards <= N /\ t' = t + Shards
Spec == Init /\ [][Next]_t

MTok(k) == [ty |-> k.ty, lit |-> k.lit, nl |-> k.nl, ok |-> k.ok]

Judge ==
  LET r0    == Trace[t]
      r     == [r0 EXCEPT !.res = [@ EXCEPT !.tree = Unflat(@)]]
      fails == C11_Failures(r.toks, r.res)
      P     == [DefaultP([j \in 1..Len(r.toks) |-> MTok(r.toks[j])])
                  EXCEPT !.tolerant = r.tolerant, !.smart = r.smart]
      m     == ParseProgram(P)
      same  == /\ m.tree = r.res.tree
               /\ Len(m.errs) = Len(r.res.errors)
               /\ \A k \in 1..Len(m.errs) : m.errs[k].at = r.res.errors[k].at /\ m.errs[k].m = r.res.errors[k].m
  IN /\ (fails = {} \/ PrintT(<<"FAIL", r.id, fails>>))
     /\ (same \/ PrintT(<<"DRIFT", r.id>>))

Accepted == (TLCGet("distinct") = N) \/ PrintT(<<"REJECTED", TLCGet("distinct"), N>>)
=============================================================================
