----------------------------- MODULE Trace_C04 -----------------------------
(* Validation of interceptor logs recorded from the REAL lexer and parser   *)
(* (one ndjson line per execution, see C04_Failures in XjsGrammar for the   *)
(* fields).  Verdicts: C04_Failures ("FAIL") and C16_Failures ("FAIL16").   *)
(* Drift: the parser model, run on the real tokens with the same statement  *)
(* and expression interceptors, produces the same event log.                *)
EXTENDS XjsGrammar, Json, IOUtils

CONSTANT Shards
Trace == ndJsonDeserialize(IOEnv.VERIF_TRACE)
N == Len(Trace)

VARIABLE t
Init == t \in 1..(IF N < Shards THEN N ELSE Shards)
Next == t + Shards <= N /\ t' = t + Shards
Spec == Init /\ [][Next]_t

MTok(k) == [ty |-> k.ty, lit |-> k.lit, nl |-> k.nl, ok |-> k.ok]
Slim(e) == [kind |-> e.kind, id |-> e.id, ph |-> e.ph, tok |-> e.tok, ctx |-> e.ctx, infn |-> e.infn]

Judge ==
  LET r0  == Trace[t]
      r   == [r0 EXCEPT !.tree = Unflat(@), !.base = [@ EXCEPT !.tree = Unflat(@)]]
      f04 == C04_Failures(r)
      f16 == C16_Failures(r)
      es  == SelectSeq(r.inst, LAMBDA x : x \in {"e", "r"})
      P   == [DefaultP([j \in 1..Len(r.toks) |-> MTok(r.toks[j])])
                EXCEPT !.tolerant = r.tolerant, !.smart = r.smart,
                       !.schain = [j \in 1..Len(SelectSeq(r.inst, LAMBDA x : x = "s")) |-> "pass"],
                       !.echain = [j \in 1..Len(es) |-> IF es[j] = "r" THEN "reent" ELSE "pass"]]
      m   == ParseProgram(P)
      same == /\ [j \in 1..Len(m.log) |-> Slim(m.log[j])] = [j \in 1..Len(r.plog) |-> Slim(r.plog[j])]
              /\ m.tree = r.tree
  IN /\ (f04 = {} \/ PrintT(<<"FAIL", r.id, f04>>))
     /\ (f16 = {} \/ PrintT(<<"FAIL16", r.id, f16>>))
     /\ (same \/ PrintT(<<"DRIFT", r.id>>))

Accepted == (TLCGet("distinct") = N) \/ PrintT(<<"REJECTED", TLCGet("distinct"), N>>)
=============================================================================
