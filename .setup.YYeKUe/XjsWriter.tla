------------------------------ MODULE XjsWriter ------------------------------
(***************************************************************************)
(* ast.CodeWriter (ast/code_writer*.go) as a state machine over records,   *)
(* one operator per exported method, and compiler.cleanEmptyLines.         *)
(*   out    bytes written so far (strings.Builder)                         *)
(*   pend   deferred layout: 32 space, 10 newline, 9 "indent at the level  *)
(*          current when flushed"                                          *)
(*   ind    IndentLevel                                                    *)
(*   cfg    [pretty, unit (bytes of one indent step), semis, map]          *)
(*   ml, mc generated line/column of the source mapper (every write goes    *)
(*          through it, layout included)                                   *)
(*   maps   recorded mappings [gl, gc, sl, sc, name]                       *)
(* An op is a record [op, ...]: str(s) rune(r) semi space nl indent inc    *)
(* dec lead(cs) map(sl, sc, name).                                         *)
(***************************************************************************)
EXTENDS Integers, Sequences, TLC

W0(cfg) == [out |-> <<>>, pend |-> <<>>, ind |-> 0, cfg |-> cfg, ml |-> 0, mc |-> 0, maps |-> <<>>,
           last |-> 0,          \* last byte written through WriteString/WriteRune (0: none)
           omit |-> FALSE,      \* an optional semicolon was left out and nothing was written since
           pm |-> <<>>]         \* mappings recorded, waiting for the position of the next write
Cfg(pretty, unit, semis, map) == [pretty |-> pretty, unit |-> unit, semis |-> semis, map |-> map]

RECURSIVE Rep(_, _)
Rep(s, n) == IF n <= 0 THEN <<>> ELSE s \o Rep(s, n - 1)
\* writeIndent: an empty unit falls back to two spaces
IndentBytes(w) == Rep(IF w.cfg.unit = <<>> THEN <<32, 32>> ELSE w.cfg.unit, w.ind)

\* SourceMapper.AdvanceString
RECURSIVE AdvStr(_, _, _, _)
AdvStr(s, i, l, c) ==
  IF i > Len(s) THEN <<l, c>>
  ELSE IF s[i] = 13 THEN AdvStr(s, (IF i + 1 <= Len(s) /\ s[i + 1] = 10 THEN i + 2 ELSE i + 1), l + 1, 0)
  ELSE IF s[i] = 10 THEN AdvStr(s, i + 1, l + 1, 0)
  ELSE AdvStr(s, i + 1, l, c + 1)

\* raw: layout text (pending whitespace, comments, restored semicolons) goes into the builder AND
\* advances the source mapper
Raw(w, s) ==
  LET p == AdvStr(s, 1, w.ml, w.mc)
  IN [w EXCEPT !.out = @ \o s, !.last = IF s = <<>> THEN @ ELSE s[Len(s)],
               !.ml = IF w.cfg.map THEN p[1] ELSE @, !.mc = IF w.cfg.map THEN p[2] ELSE @]
\* writeNewline: no blank lines before the first token
RawNewline(w) == IF w.out = <<>> THEN w ELSE Raw(w, <<10>>)

RECURSIVE FlushFrom(_, _)
FlushFrom(w, p) ==
  IF p = <<>> THEN [w EXCEPT !.pend = <<>>]
  ELSE FlushFrom(IF Head(p) = 9 THEN Raw(w, IndentBytes(w)) ELSE IF Head(p) = 10 THEN RawNewline(w) ELSE Raw(w, <<Head(p)>>), Tail(p))
\* flushPending
Flush(w) == FlushFrom(w, w.pend)

\* commitMappings: the waiting mappings are recorded at the current generated position
RECURSIVE CommitFrom(_, _)
CommitFrom(w, i) ==
  IF i > Len(w.pm) THEN [w EXCEPT !.pm = <<>>]
  ELSE CommitFrom([w EXCEPT !.maps = Append(@, [gl |-> w.ml, gc |-> w.mc, sl |-> w.pm[i].sl, sc |-> w.pm[i].sc, name |-> w.pm[i].name])], i + 1)
Commit(w) == CommitFrom(w, 1)

\* restoreSemi: the semicolon WriteSemi left out is written after all when the text that follows
\* would continue the statement, is " else", or is a comment / blank line (next = <<59>>)
IsPrefixOf(p, s) == Len(p) <= Len(s) /\ SubSeq(s, 1, Len(p)) = p
RestoreSemi(w, next) ==
  IF ~w.omit THEN w
  ELSE LET w0 == [w EXCEPT !.omit = FALSE] IN
       IF next = <<>> THEN w0
       ELSE IF next[1] \in {40, 91, 96, 43, 45, 47, 59} \/ IsPrefixOf(<<32, 101, 108, 115, 101>>, next)
            THEN Raw(w0, <<59>>)
            ELSE w0

WString(w, s) ==
  LET w1 == Commit(Flush(RestoreSemi(w, s)))
      p  == AdvStr(s, 1, w1.ml, w1.mc)
  IN [w1 EXCEPT !.out = @ \o s, !.last = IF s = <<>> THEN @ ELSE s[Len(s)],
                !.ml = IF w.cfg.map THEN p[1] ELSE @, !.mc = IF w.cfg.map THEN p[2] ELSE @]
\* WriteRune (r is one byte here: every rune the printers write is ASCII)
WRune(w, r) ==
  LET w1 == Commit(Flush(RestoreSemi(w, <<r>>)))
  IN [w1 EXCEPT !.out = Append(@, r), !.last = r,
                !.ml = IF w.cfg.map /\ r = 10 THEN @ + 1 ELSE @,
                !.mc = IF ~w.cfg.map THEN @ ELSE IF r = 10 THEN 0 ELSE @ + 1]
WSemi(w) == IF ~w.cfg.pretty \/ w.cfg.semis THEN WRune(w, 59) ELSE [w EXCEPT !.omit = TRUE]
\* SeparateOperator: a space when the operator would fuse with the byte before it (+ +, - -, - >, < !)
WSep(w, first) ==
  IF w.pend # <<>> THEN w
  ELSE IF (w.last = 43 /\ first = 43) \/ (w.last = 45 /\ first = 45) \/ (w.last = 45 /\ first = 62) \/ (w.last = 60 /\ first = 33)
       THEN WRune(w, 32) ELSE w
LastPend(w) == IF w.pend = <<>> THEN 0 ELSE w.pend[Len(w.pend)]
WSpace(w) == IF w.cfg.pretty /\ LastPend(w) # 32 THEN [w EXCEPT !.pend = Append(@, 32)] ELSE w
WIndent(w) == IF w.cfg.pretty /\ LastPend(w) # 9 THEN [w EXCEPT !.pend = Append(@, 9)] ELSE w
WNewline(w) == IF w.cfg.pretty THEN [w EXCEPT !.pend = <<10>>] ELSE w
Inc(w) == IF w.cfg.pretty THEN [w EXCEPT !.ind = @ + 1] ELSE w
Dec(w) == IF w.cfg.pretty /\ w.ind > 0 THEN [w EXCEPT !.ind = @ - 1] ELSE w

\* WriteLeadingComments: written around the mapper and without flushing
RECURSIVE LeadFrom(_, _, _)
LeadFrom(w, cs, i) ==
  IF i > Len(cs) THEN w
  ELSE LET c  == cs[i]
           w1 == IF i = 1 THEN (IF Len(c) > 0 /\ w.out # <<>> THEN Raw(w, <<32>>) ELSE w)
                 ELSE LET wn == RawNewline(w) IN IF Len(c) > 0 THEN Raw(wn, IndentBytes(wn)) ELSE wn   \* blank lines are not indented
           w2 == Raw(IF Len(c) > 0 THEN Raw(w1, <<47, 47>>) ELSE w1, c)
       IN LeadFrom(w2, cs, i + 1)
WLead(w, cs) ==
  IF ~w.cfg.pretty \/ Len(cs) = 0 THEN w
  ELSE LET w0 == IF Len(cs) > 1 \/ Len(cs[1]) > 0 THEN RestoreSemi(w, <<59>>) ELSE w
       IN [LeadFrom(w0, cs, 1) EXCEPT !.pend = <<10, 9>>]

\* AddMapping / AddNamedMapping: recorded, committed by the next write
WMap(w, sl, sc, name) ==
  IF ~w.cfg.map THEN w
  ELSE [w EXCEPT !.pm = Append(@, [sl |-> sl, sc |-> sc, name |-> name])]

Apply(w, o) ==
  CASE o.op = "str" -> WString(w, o.s)
    [] o.op = "rune" -> WRune(w, o.r)
    [] o.op = "semi" -> WSemi(w)
    [] o.op = "sep" -> WSep(w, o.r)
    [] o.op = "forget" -> [w EXCEPT !.omit = FALSE]        \* forgetOmittedSemi
    [] o.op = "space" -> WSpace(w)
    [] o.op = "nl" -> WNewline(w)
    [] o.op = "indent" -> WIndent(w)
    [] o.op = "inc" -> Inc(w)
    [] o.op = "dec" -> Dec(w)
    [] o.op = "lead" -> WLead(w, o.cs)
    [] o.op = "map" -> WMap(w, o.sl, o.sc, o.name)

RECURSIVE Run(_, _, _)
Run(w, ops, i) == IF i > Len(ops) THEN w ELSE Run(Apply(w, ops[i]), ops, i + 1)

(* compiler.cleanEmptyLines *)
IsSpaceByte(b) == b \in {32, 9, 10, 11, 12, 13}
RECURSIVE TrimLeft(_), TrimRightWS(_), WTrimRightSp(_), JoinLF(_)
TrimLeft(s) == IF s # <<>> /\ IsSpaceByte(Head(s)) THEN TrimLeft(Tail(s)) ELSE s
TrimRightWS(s) == IF s # <<>> /\ IsSpaceByte(s[Len(s)]) THEN TrimRightWS(SubSeq(s, 1, Len(s) - 1)) ELSE s
WTrimRightSp(s) == IF s # <<>> /\ s[Len(s)] = 32 THEN WTrimRightSp(SubSeq(s, 1, Len(s) - 1)) ELSE s
\* lines of s (split at LF); index-based so that long texts stay cheap.  (cur is kept for callers
\* that pass an initial fragment; it is prepended to the first line)
RECURSIVE SplitFrom(_, _, _, _)
SplitFrom(s, i, start, acc) ==
  IF i > Len(s) THEN Append(acc, SubSeq(s, start, Len(s)))
  ELSE IF s[i] = 10 THEN SplitFrom(s, i + 1, i + 1, Append(acc, SubSeq(s, start, i - 1)))
  ELSE SplitFrom(s, i + 1, start, acc)
SplitLF(s, cur) == LET ls == SplitFrom(s, 1, 1, <<>>) IN [ls EXCEPT ![1] = cur \o @]
JoinLF(ls) == IF Len(ls) = 0 THEN <<>> ELSE IF Len(ls) = 1 THEN ls[1] ELSE ls[1] \o <<10>> \o JoinLF(Tail(ls))
\* strings.TrimSpace on the whole text; lines are not trimmed one by one (they may belong to a
\* multi-line literal)
CleanEmptyLines(code) == TrimRightWS(TrimLeft(code))

\* Compiler.Compile: run the printer's ops on a fresh writer
Finish(w) == IF w.cfg.pretty THEN CleanEmptyLines(w.out) ELSE w.out

(* design-level invariants of the machine *)
PendOK(w) == \A j \in 1..Len(w.pend) : w.pend[j] \in {32, 10, 9}
NoSpaceAfterNewline(w) == \A j \in 1..Len(w.pend) : w.pend[j] = 10 => j = 1
=============================================================================
