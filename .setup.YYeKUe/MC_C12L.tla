------------------------------ MODULE MC_C12L ------------------------------
(* Truncation inside string and backtick literals with escapes: every body  *)
(* of <= MaxAtoms atoms (plain byte, escaped own quote, escaped backslash,  *)
(* the other quote, an escape letter) in each of the three quote styles,    *)
(* in two contexts, cut at EVERY byte offset inside the literal.  The lexer *)
(* model (XjsLexer) says whether IT sees an unterminated literal (ILLEGAL); *)
(* each truncated text is exported for the reference parsers and the real   *)
(* strict parser.                                                           *)
EXTENDS XjsLexer, Json

CONSTANTS MaxAtoms, Export
VARIABLES body, q
vars == <<body, q>>

Quotes == {34, 39, 96}
Atoms(qq) == {<<97>>, <<92, qq>>, <<92, 92>>, <<IF qq = 34 THEN 39 ELSE 34>>, <<92, 110>>}

Init == body = <<>> /\ q \in Quotes
Next == Len(body) < MaxAtoms /\ \E a \in Atoms(q) : body' = Append(body, a) /\ UNCHANGED q
Spec == Init /\ [][Next]_vars

RECURSIVE Flat(_)
Flat(s) == IF s = <<>> THEN <<>> ELSE Head(s) \o Flat(Tail(s))

\* "let s = " and "f(" ; suffixes ";" and ");"
Pre(c) == IF c = 1 THEN <<108, 101, 116, 32, 115, 32, 61, 32>> ELSE <<102, 40>>
Suf(c) == IF c = 1 THEN <<59>> ELSE <<41, 59>>
Intact(c) == IF c = 1 THEN 3 ELSE 2

Inv == \A c \in {1, 2} :
         LET lit  == <<q>> \o Flat(body) \o <<q>>
             full == Pre(c) \o lit \o Suf(c)
         IN \A k \in (Len(Pre(c)) + 1)..(Len(Pre(c)) + Len(lit) - 1) :
              LET src  == SubSeq(full, 1, k)
                  toks == LexAll(src, 0)
                  ill  == \E j \in 1..Len(toks) : toks[j].ty = "ILLEGAL"
              IN Export => PrintT(ToJson([src |-> src, full |-> full, intact |-> Intact(c), model_illegal |-> ill]))
=============================================================================
