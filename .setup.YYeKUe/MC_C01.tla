------------------------------ MODULE MC_C01 ------------------------------
(* Executable programs of the subset (all terminate; `print` and the        *)
(* variables a b c o s f come from a prelude that is not compiled):         *)
(*   - print(e) for every value expression e built from atoms by <= Depth   *)
(*     parents (every operator pair and side; no function values flow into  *)
(*     operators, because Function.prototype.toString exposes the layout),  *)
(*   - every sequence of <= MaxStmts statement templates (declarations,     *)
(*     closures, recursion, if/else chains, loops, blocks, early returns,   *)
(*     statements that begin with ( [ - ++ and a backtick, errors thrown).  *)
(* Each program is rendered in layouts (separators; line breaks) and        *)
(* exported with the printer model's compact and pretty texts.              *)
EXTENDS XjsPrinter, XjsPrograms, Json, FiniteSets

CONSTANTS Depth, MaxStmts, Export

VARIABLES t, d, ss
vars == <<t, d, ss>>

\* the literal the lexer model gives a STRING token whose source body is `body` (escapes that are
\* safe to decode are decoded, the others stay): named by the vocabulary entry with those bytes
Lx == INSTANCE XjsLexer
LexedBody(body) ==
  LET dq == Lx!NextToken(<<34>> \o VB(body) \o <<34>>, Lx!InitCursor)[1]
      sq == Lx!NextToken(<<39>> \o VB(body) \o <<39>>, Lx!InitCursor)[1]
      tk == IF dq.eo = Len(VB(body)) + 1 THEN dq ELSE sq
  IN IF tk.lit = VB(body) THEN body ELSE CHOOSE s \in DOMAIN Vocab : Vocab[s] = tk.lit
Lexed(toks) == [j \in 1..Len(toks) |-> IF toks[j].ty = "STRING" THEN [toks[j] EXCEPT !.lit = LexedBody(toks[j].lit)] ELSE toks[j]]

Str(x) == Node("str", x, <<>>)
Call(f, args) == Node("call", "", <<f>> \o args)
P(e) == E(Call(Id("print"), <<e>>))
Mem(o, p) == Node("mem", "", <<o, Id(p)>>)
Asg(l, r) == Node("asg", "=", <<l, r>>)
Un(op, x) == Node("un", op, <<x>>)
Post(op, x) == Node("post", op, <<x>>)
While(c, b) == Node("while", "", <<c, b>>)
For(i, c, u, b) == Node("for", "", <<i, c, u, b>>)
FDecl(n, ps, body) == Node("fdecl", "", <<Id(n), PList(ps), Blk(body)>>)
Arr(es) == Node("arr", "", es)
Obj(kv) == Node("obj", "", kv)

ValAtoms == {A, Num("2"), Str("s"), Mem(Id("o"), "k")}
\* parents of a value expression (no function values)
ValWraps(x) ==
  {Bin(op, x, B) : op \in BinOps} \cup {Bin(op, B, x) : op \in BinOps}
  \cup {Un(op, x) : op \in {"!", "-"}}
  \cup (IF IsTarget(x) THEN {Un("++", x), Un("--", x), Post("++", x), Post("--", x), Asg(x, B),
                             Node("casg", "+=", <<x, B>>), Node("casg", "-=", <<x, Num("1")>>)} ELSE {})
  \cup {Asg(Id("c"), x), Node("casg", "+=", <<Id("c"), x>>), Node("casg", "-=", <<B, x>>)}
  \cup {Call(Id("f"), <<x>>), Call(Id("f"), <<B, x>>), Node("idx", "", <<Arr(<<B, x>>), Num("1")>>),
        Arr(<<x, B>>), Obj(<<Id("k"), x>>), Grp(x), Node("idx", "", <<Id("o"), x>>)}
  \cup {Mem(x, "k"), Call(x, <<>>)}

Lt(l, r) == Bin("<", l, r)
I == Id("i")
N0 == Num("0")
N1 == Num("1")
N3 == Num("3")
ExecTemplates ==
  { P(A), P(Str("s")), P(Node("raw", "r", <<>>)), P(Str("a\\\\\"b")), P(Bin("+", Str("it's"), Str("\\t\\u000A\\n"))),
    P(Str("caf\\xe9\\u00e9")), P(Node("raw", "a\n\n\nb", <<>>)), Let("x", Bin("+", A, B)), P(Id("x")),
    E(Asg(A, Bin("*", A, Num("2")))), E(Post("++", A)), E(Un("--", B)), E(Node("casg", "+=", <<Id("s"), Str("t")>>)),
    FDecl("g", <<Id("p"), Id("q")>>, <<Ret(Bin("-", Id("p"), Id("q")))>>), P(Call(Id("g"), <<A, B>>)),
    FDecl("h", <<Id("n")>>, <<If(Lt(Id("n"), Num("2")), Ret(N1), Nil), Ret(Bin("*", Id("n"), Call(Id("h"), <<Bin("-", Id("n"), N1)>>)))>>),
    P(Call(Id("h"), <<N3>>)),
    Let("m", Fn(Nil, <<Id("p")>>, <<E(Post("++", A)), Ret(Bin("+", Id("p"), A))>>)), P(Call(Id("m"), <<B>>)),
    Let("w", Call(Grp(Fn(Nil, <<>>, <<Let("z", N0), Ret(Fn(Nil, <<>>, <<E(Post("++", Id("z"))), Ret(Id("z"))>>))>>)), <<>>)),
    P(Bin("+", Call(Id("w"), <<>>), Call(Id("w"), <<>>))),
    E(Call(Grp(Fn(Nil, <<>>, <<P(Str("t"))>>)), <<>>)),
    If(Lt(A, B), P(N1), P(Num("2"))), If(Lt(B, A), P(N1), If(Bin("==", A, A), P(Num("2")), P(N3))),
    If(A, Blk(<<P(A), E(Asg(A, N0))>>), Nil), If(Un("!", A), P(Str("s")), Nil),
    While(Lt(A, N3), Blk(<<E(Post("++", A)), P(A)>>)), While(Lt(A, N3), E(Post("++", A))),
    For(Node("lete", "", <<I, N0>>), Lt(I, N3), Post("++", I), P(I)),
    For(Node("lete", "", <<I, N0>>), Lt(I, Num("2")), Node("casg", "+=", <<I, N1>>), Blk(<<P(Bin("*", I, B)), If(I, P(Str("t")), Nil)>>)),
    For(Asg(Id("c"), N0), Lt(Id("c"), Num("2")), Un("++", Id("c")), E(Post("--", B))),
    Blk(<<Let("a", Num("7")), P(A)>>), Blk(<<>>),
    E(Un("-", A)), E(Un("++", A)), E(Call(Grp(Id("f")), <<A>>)), E(Node("idx", "", <<Arr(<<A, B>>), N0>>)), E(Node("raw", "r", <<>>)),
    P(Node("idx", "", <<Arr(<<A, B>>), N1>>)), P(Obj(<<Id("k"), A, Id("m"), Arr(<<B>>)>>)), P(Mem(Id("o"), "k")),
    E(Asg(Mem(Id("o"), "k"), Bin("+", Mem(Id("o"), "k"), N1))), E(Asg(Node("idx", "", <<Id("o"), Str("j")>>), A)), P(Id("o")),
    E(Call(Id("u"), <<>>)), E(Mem(Mem(Id("o"), "z"), "y")), E(Call(N1, <<>>)),
    FDecl("e", <<>>, <<P(N1), Ret(Nil), P(Num("2"))>>), E(Call(Id("e"), <<>>)),
    P(Bin("-", A, Un("-", B))), P(Bin("+", A, Un("++", B))), P(Bin("-", Post("--", A), Un("--", B))), P(Bin("<", A, Un("!", Un("--", B)))) }

Init == \/ t \in ValAtoms /\ d = 0 /\ ss = <<>>
        \/ MaxStmts > 0 /\ t = Nil /\ d = 0 /\ ss = <<>>
Next == \/ t # Nil /\ d < Depth /\ t' \in ValWraps(t) /\ d' = d + 1 /\ UNCHANGED ss
        \/ t = Nil /\ Len(ss) < MaxStmts /\ \E s \in ExecTemplates : ss' = Append(ss, s) /\ UNCHANGED <<t, d>>
Spec == Init /\ [][Next]_vars

Programs ==
  IF t # Nil THEN {Prog(<<P(t)>>), Prog(<<Let("v", t), P(Id("v")), P(A)>>)}
  ELSE IF Len(ss) = 0 THEN {} ELSE {Prog(ss)}

Cfgs == <<Compact, Pretty(<<32, 32>>, TRUE), Pretty(<<9>>, FALSE)>>
Inv == \A p \in Programs :
         StmtStartsOK(p, <<>>) =>
           LET ts == RenderProg(p, FALSE, <<>>)
               \* the printer model prints the tree the parser model reads from the rendered tokens
               \* (it contains the grouping nodes of the parentheses the unparser had to add)
               pt == ParseProgram(DefaultP(Lexed(Layout(ts, 1, {})))).tree
               mo == [c \in 1..3 |-> PrintTree(pt, Cfgs[c])]
           IN \A sep \in {1, 2, 3} :
                SepOK(ts, sep) =>
                  \A brk \in (IF t # Nil /\ d <= 1 THEN {{}, 1..Len(ts)} ELSE {{}}) :
                    LET toks == Layout(ts, sep, brk) IN
                    Export => PrintT(ToJson([toks |-> [j \in 1..Len(toks) |-> [ty |-> toks[j].ty, lit |-> toks[j].lit, nl |-> toks[j].nl]],
                                              mouts |-> IF sep = 1 /\ brk = {} THEN mo ELSE <<>>]))
=============================================================================
