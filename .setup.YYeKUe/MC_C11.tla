------------------------------ MODULE MC_C11 ------------------------------
(* All token strings up to MaxLen over a set of token kinds, laid out with  *)
(* spaces or with line breaks, in all four parser modes: the parser model   *)
(* must return a result that obeys the error contract (design level); each  *)
(* string is exported for replay on the real parser.                        *)
EXTENDS XjsGrammar, Json

CONSTANTS MaxLen, Kinds, Export

VARIABLES ks, nl
vars == <<ks, nl>>

Init == ks = <<>> /\ nl \in BOOLEAN
Next == Len(ks) < MaxLen /\ \E k \in Kinds : ks' = Append(ks, k) /\ UNCHANGED nl
Spec == Init /\ [][Next]_vars

\* token of a kind: kinds are token type names, except "BADINT" (an INT that strconv rejects)
TokOf(k, first) ==
  [ty |-> IF k \in {"BADINT", "BIGINT"} THEN "INT" ELSE IF k = "BIGFLOAT" THEN "FLOAT" ELSE k, lit |-> k, nl |-> (nl /\ ~first),
   ok |-> k \notin {"BADINT", "BIGINT", "BIGFLOAT"}]
Toks == [j \in 1..(Len(ks) + 1) |->
           IF j <= Len(ks) THEN TokOf(ks[j], j = 1) ELSE [ty |-> "EOF", lit |-> "", nl |-> nl /\ Len(ks) > 0, ok |-> TRUE]]

Modes == {<<FALSE, FALSE>>, <<TRUE, FALSE>>, <<FALSE, TRUE>>, <<TRUE, TRUE>>}
PM(m) == [DefaultP(Toks) EXCEPT !.tolerant = m[1], !.smart = m[2]]

ModelRes(m) == LET r == ParseProgram(PM(m))
               IN [tree |-> r.tree, err |-> Len(r.errs) > 0, errs |-> r.errs, ctx |-> r.ctx]

Inv == /\ \A m \in Modes :
            LET r == ModelRes(m) IN
            /\ Assert(NoNilInLists(r.tree), <<"nil in list", ks, m>>)
            /\ Assert(Len(r.errs) = 0 => Complete(r.tree), <<"incomplete without error", ks, m>>)
            /\ Assert(r.ctx = <<"global">>, <<"context not restored", ks, m>>)
            /\ Assert(\A k \in 1..Len(r.errs) : r.errs[k].at \in 1..Len(Toks), <<"error position", ks, m>>)
       /\ (Export => PrintT(ToJson([ks |-> ks, nl |-> nl])))

QKinds == {"IDENT", "INT", "STRING", "LET", "FUNCTION", "RETURN", "IF", "ELSE", "WHILE", "FOR",
           "LPAREN", "RPAREN", "LBRACE", "RBRACE", "LBRACKET", "RBRACKET", "COMMA", "SEMICOLON",
           "COLON", "DOT", "ASSIGN", "PLUS", "INCREMENT", "NOT", "MINUS_ASSIGN", "BADINT", "BIGINT", "BIGFLOAT"}
SKinds == {"IDENT", "INT", "LET", "FUNCTION", "RETURN", "IF", "ELSE", "LPAREN", "RPAREN", "LBRACE",
           "RBRACE", "SEMICOLON", "ASSIGN", "INCREMENT"}
XKinds == {"IDENT", "LET", "FUNCTION", "IF", "LPAREN", "RPAREN", "LBRACE", "RBRACE", "ASSIGN"}
=============================================================================
