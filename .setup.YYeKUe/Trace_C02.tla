----------------------------- MODULE Trace_C02 -----------------------------
(* Validation of parse results recorded from the REAL parser on renderings  *)
(* of subset programs.  One ndjson line per execution:                      *)
(*   {id, toks (the real lexer's tokens), res = {tree, err, errors}, want}  *)
(* want = the tree ECMAScript assigns (the tree the text was rendered from, *)
(* grouping nodes stripped).  Verdict: C02_Failures on the real result.     *)
EXTENDS XjsGrammar, Json, IOUtils

CONSTANT Shards
Trace == ndJsonDeserialize(IOEnv.VERIF_TRACE)
N == Len(Trace)

VARIABLE t
Init == t \in 1..(IF N < Shards THEN N ELSE Shards)
Next == t + Shards <= N /\ t' = t + Shards
Spec == Init /\ [][Next]_t

Judge ==
  LET r     == Trace[t]
      fails == C02_Failures(r.toks, [r.res EXCEPT !.tree = Unflat(@)], Unflat(r.want))
  IN fails = {} \/ PrintT(<<"FAIL", r.id, fails>>)

Accepted == (TLCGet("distinct") = N) \/ PrintT(<<"REJECTED", TLCGet("distinct"), N>>)
=============================================================================
