------------------------------ MODULE MC_C05B ------------------------------
(* All registration histories of <= MaxCalls calls on one builder pair      *)
(* (XjsBuilder machine): design-level invariants of the bookkeeping, and     *)
(* export of every maximal history with the machine's replies.               *)
EXTENDS XjsBuilder, Json

CONSTANT Export

Spec == BSpec
Inv == /\ IdsFresh /\ IdsInjective
       /\ C05B_Failures(hist, {}) = {}            \* the machine satisfies the declarative clause
       /\ ((Export /\ Len(hist) = MaxCalls) => PrintT(ToJson([h |-> hist])))
=============================================================================
