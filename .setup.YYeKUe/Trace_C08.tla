----------------------------- MODULE Trace_C08 -----------------------------
(* Validation of source maps recorded from the REAL compiler.  One ndjson   *)
(* line per (source text, configuration): {id, stoks (source tokens: ty,    *)
(* lit, sl, sc), otoks (tokens of the generated code), map = {version,      *)
(* mappings, names}, wcfg + ops (recorded code-writer operations)}.         *)
(* Verdict (C08): every segment, decoded by the independent Source Map v3   *)
(* decoder of XjsSourceMap, links the start of a generated token with the   *)
(* start of a source token of the same lexeme; every identifier of the      *)
(* generated code starts a segment that carries it as its name; segments    *)
(* are ordered by generated position.  Drift: the XjsWriter machine, fed    *)
(* with the recorded operations, records exactly the decoded segments.      *)
EXTENDS XjsSourceMap, XjsWriter, XjsLexer, Json, IOUtils

CONSTANT Shards
Trace == ndJsonDeserialize(IOEnv.VERIF_TRACE)
N == Len(Trace)

VARIABLE t
tv == <<t, gl, gc, maps, names>>
Init == /\ t \in 1..(IF N < Shards THEN N ELSE Shards)
        /\ gl = 0 /\ gc = 0 /\ maps = <<>> /\ names = <<>>
Next == t + Shards <= N /\ t' = t + Shards /\ UNCHANGED <<gl, gc, maps, names>>
Spec == Init /\ [][Next]_tv

IsMalformed(segs) == Len(segs) = 1 /\ "malformed" \in DOMAIN segs[1]
SameLexeme(o, s) == o.ty = s.ty /\ (o.ty \in {"IDENT", "INT", "FLOAT"} => o.lit = s.lit)
PosLE(l1, c1, l2, c2) == l1 < l2 \/ (l1 = l2 /\ c1 <= c2)

\* the source tokens with their TRUE start positions: the lexer model run on the source bytes
\* (independent of the positions the real lexer reports)
SrcToks(r) == LET m == LexAll(r.src, 0) IN [j \in 1..Len(m) |-> [ty |-> m[j].ty, lit |-> m[j].lit, sl |-> m[j].sl, sc |-> m[j].sc]]

C08_Failures(r) ==
  LET segs == Decode(r.map.mappings)
      stoks == SrcToks(r) IN
  IF IsMalformed(segs) \/ r.map.version # 3 THEN {"map_does_not_decode"}
  ELSE
  LET full == SelectSeq(segs, LAMBDA g : "sl" \in DOMAIN g) IN
  \* position -> token index (token starts are distinct)
  LET oAt == [p \in {<<r.otoks[j].sl, r.otoks[j].sc>> : j \in 1..Len(r.otoks)} |->
                CHOOSE j \in 1..Len(r.otoks) : <<r.otoks[j].sl, r.otoks[j].sc>> = p]
      sAt == [p \in {<<stoks[j].sl, stoks[j].sc>> : j \in 1..Len(stoks)} |->
                CHOOSE j \in 1..Len(stoks) : <<stoks[j].sl, stoks[j].sc>> = p]
  IN
  (IF \A k \in 1..Len(full) :
        /\ <<full[k].gl, full[k].gc>> \in DOMAIN oAt
        /\ <<full[k].sl, full[k].sc>> \in DOMAIN sAt
        /\ SameLexeme(r.otoks[oAt[<<full[k].gl, full[k].gc>>]], stoks[sAt[<<full[k].sl, full[k].sc>>]])
   THEN {} ELSE {"segment_does_not_link_identical_lexemes"})
  \cup (LET namedAt == [p \in {<<full[k].gl, full[k].gc>> : k \in {x \in 1..Len(full) : full[x].named}} |->
                            {full[k].ni : k \in {x \in 1..Len(full) : full[x].named /\ <<full[x].gl, full[x].gc>> = p}}]
        IN IF \A o \in 1..Len(r.otoks) : r.otoks[o].ty = "IDENT" =>
                /\ <<r.otoks[o].sl, r.otoks[o].sc>> \in DOMAIN namedAt
                /\ \E ni \in namedAt[<<r.otoks[o].sl, r.otoks[o].sc>>] :
                      ni + 1 \in 1..Len(r.map.names) /\ r.map.names[ni + 1] = r.otoks[o].name
           THEN {} ELSE {"identifier_without_named_segment"})
  \cup (IF \A k \in 1..(Len(segs) - 1) : PosLE(segs[k].gl, segs[k].gc, segs[k + 1].gl, segs[k + 1].gc)
        THEN {} ELSE {"segments_not_ordered"})
  \cup (IF \A k \in 1..Len(full) : full[k].src = 0 THEN {} ELSE {"source_index"})

ModelSegs(r) ==
  LET w == Run(W0(Cfg(r.wcfg.pretty, r.wcfg.unit, r.wcfg.semis, TRUE)), r.ops, 1)
  IN [k \in 1..Len(w.maps) |-> <<w.maps[k].gl, w.maps[k].gc, w.maps[k].sl, w.maps[k].sc, w.maps[k].name>>]
RealSegs(r) ==
  LET segs == Decode(r.map.mappings)
  IN IF IsMalformed(segs) THEN <<>>
     ELSE [k \in 1..Len(segs) |-> <<segs[k].gl, segs[k].gc, segs[k].sl, segs[k].sc,
                                    IF segs[k].named /\ segs[k].ni + 1 \in 1..Len(r.map.names) THEN r.map.names[segs[k].ni + 1] ELSE "">>]

Judge ==
  LET r == Trace[t]
      f == C08_Failures(r)
  IN /\ (f = {} \/ PrintT(<<"FAIL", r.id, f>>))
     /\ (Len(r.ops) = 0 \/ ModelSegs(r) = RealSegs(r) \/ PrintT(<<"DRIFT", r.id>>))

Accepted == (TLCGet("distinct") = N) \/ PrintT(<<"REJECTED", TLCGet("distinct"), N>>)
=============================================================================
