----------------------------- MODULE XjsLiterals -----------------------------
(***************************************************************************)
(* Reference semantics of literals per ECMA-262, independent of xjs:       *)
(*   SV(body)  the String Value of a quoted string literal body, as a      *)
(*             sequence of UTF-16 code units (<<-1>>: not a valid literal) *)
(*   TV(body)  the cooked Template Value of a backtick string body without *)
(*             substitutions                                               *)
(* Bodies are byte sequences (UTF-8 source text).  Sloppy-mode (Annex B)   *)
(* legacy octal escapes are honoured in SV, rejected in TV.                *)
(***************************************************************************)
EXTENDS Integers, Sequences

Invalid == <<-1>>
IsHexB(b) == (48 <= b /\ b <= 57) \/ (97 <= b /\ b <= 102) \/ (65 <= b /\ b <= 70)
HexValB(b) == IF b <= 57 THEN b - 48 ELSE IF b >= 97 THEN b - 87 ELSE b - 55
At(s, i) == IF i >= 1 /\ i <= Len(s) THEN s[i] ELSE -1

\* code point -> UTF-16 code units
Units(cp) == IF cp < 65536 THEN <<cp>>
             ELSE <<55296 + ((cp - 65536) \div 1024), 56320 + ((cp - 65536) % 1024)>>

\* UTF-8 sequence starting at s[i] (assumed well-formed): [cp, n]
DecodeUTF8(s, i) ==
  LET b == s[i] IN
  IF b < 128 THEN [cp |-> b, n |-> 1]
  ELSE IF b < 224 THEN [cp |-> (b - 192) * 64 + (At(s, i + 1) - 128), n |-> 2]
  ELSE IF b < 240 THEN [cp |-> (b - 224) * 4096 + (At(s, i + 1) - 128) * 64 + (At(s, i + 2) - 128), n |-> 3]
  ELSE [cp |-> (b - 240) * 262144 + (At(s, i + 1) - 128) * 4096 + (At(s, i + 2) - 128) * 64 + (At(s, i + 3) - 128), n |-> 4]

RECURSIVE HexRun(_, _, _)
\* value of the hex digits s[i..] up to (not including) the first non-hex byte: [v, n]
HexRun(s, i, acc) ==
  IF IsHexB(At(s, i)) /\ acc.n < 8 THEN HexRun(s, i + 1, [v |-> acc.v * 16 + HexValB(s[i]), n |-> acc.n + 1]) ELSE acc

IsOct(b) == 48 <= b /\ b <= 55

RECURSIVE ValueFrom(_, _, _, _)
ValueFrom(s, i, tpl, acc) ==
  IF i > Len(s) THEN acc
  ELSE LET b == s[i] IN
  IF b = 92 THEN
    LET e == At(s, i + 1) IN
    IF e = -1 THEN Invalid
    ELSE IF e = 110 THEN ValueFrom(s, i + 2, tpl, Append(acc, 10))
    ELSE IF e = 116 THEN ValueFrom(s, i + 2, tpl, Append(acc, 9))
    ELSE IF e = 114 THEN ValueFrom(s, i + 2, tpl, Append(acc, 13))
    ELSE IF e = 98 THEN ValueFrom(s, i + 2, tpl, Append(acc, 8))
    ELSE IF e = 102 THEN ValueFrom(s, i + 2, tpl, Append(acc, 12))
    ELSE IF e = 118 THEN ValueFrom(s, i + 2, tpl, Append(acc, 11))
    ELSE IF e = 120 THEN
      IF IsHexB(At(s, i + 2)) /\ IsHexB(At(s, i + 3))
      THEN ValueFrom(s, i + 4, tpl, Append(acc, HexValB(s[i + 2]) * 16 + HexValB(s[i + 3]))) ELSE Invalid
    ELSE IF e = 117 THEN
      IF At(s, i + 2) = 123 THEN
        LET h == HexRun(s, i + 3, [v |-> 0, n |-> 0]) IN
        IF h.n = 0 \/ At(s, i + 3 + h.n) # 125 \/ h.v > 1114111 THEN Invalid
        ELSE ValueFrom(s, i + 4 + h.n, tpl, acc \o Units(h.v))
      ELSE IF IsHexB(At(s, i + 2)) /\ IsHexB(At(s, i + 3)) /\ IsHexB(At(s, i + 4)) /\ IsHexB(At(s, i + 5))
           THEN ValueFrom(s, i + 6, tpl,
                          Append(acc, HexValB(s[i + 2]) * 4096 + HexValB(s[i + 3]) * 256 + HexValB(s[i + 4]) * 16 + HexValB(s[i + 5])))
           ELSE Invalid
    ELSE IF IsOct(e) THEN
      IF e = 48 /\ ~(48 <= At(s, i + 2) /\ At(s, i + 2) <= 57) THEN ValueFrom(s, i + 2, tpl, Append(acc, 0))
      ELSE IF tpl THEN Invalid
      ELSE \* legacy octal escape: up to 3 digits, value <= 255
        LET d1 == e - 48
            two == IsOct(At(s, i + 2))
            d2 == At(s, i + 2) - 48
            three == two /\ d1 <= 3 /\ IsOct(At(s, i + 3))
            d3 == At(s, i + 3) - 48
        IN IF three THEN ValueFrom(s, i + 4, tpl, Append(acc, d1 * 64 + d2 * 8 + d3))
           ELSE IF two THEN ValueFrom(s, i + 3, tpl, Append(acc, d1 * 8 + d2))
           ELSE ValueFrom(s, i + 2, tpl, Append(acc, d1))
    ELSE IF e \in {56, 57} THEN (IF tpl THEN Invalid ELSE ValueFrom(s, i + 2, tpl, Append(acc, e)))
    ELSE IF e = 10 THEN ValueFrom(s, i + 2, tpl, acc)                                   \* line continuation
    ELSE IF e = 13 THEN ValueFrom(s, (IF At(s, i + 2) = 10 THEN i + 3 ELSE i + 2), tpl, acc)
    ELSE IF e = 226 /\ At(s, i + 2) = 128 /\ At(s, i + 3) \in {168, 169} THEN ValueFrom(s, i + 4, tpl, acc)
    ELSE LET u == DecodeUTF8(s, i + 1) IN ValueFrom(s, i + 1 + u.n, tpl, acc \o Units(u.cp))  \* identity escape
  ELSE IF b = 10 THEN (IF tpl THEN ValueFrom(s, i + 1, tpl, Append(acc, 10)) ELSE Invalid)
  ELSE IF b = 13 THEN (IF tpl THEN ValueFrom(s, (IF At(s, i + 1) = 10 THEN i + 2 ELSE i + 1), tpl, Append(acc, 10)) ELSE Invalid)
  ELSE LET u == DecodeUTF8(s, i) IN ValueFrom(s, i + u.n, tpl, acc \o Units(u.cp))

SV(body) == ValueFrom(body, 1, FALSE, <<>>)
TV(body) == ValueFrom(body, 1, TRUE, <<>>)
=============================================================================
