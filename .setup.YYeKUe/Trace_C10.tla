----------------------------- MODULE Trace_C10 -----------------------------
(* Validation of token lists recorded from the REAL lexer: one ndjson line  *)
(* per execution {id, src, toks}.  Each is judged by the declarative        *)
(* property P_C10 (verdict) and compared with the lexer model (drift).      *)
(* Records are striped over Shards chains for TLC's workers.                *)
EXTENDS XjsLexer, Json, IOUtils

CONSTANT Shards
Trace == ndJsonDeserialize(IOEnv.VERIF_TRACE)
N == Len(Trace)

VARIABLE t
Init == t \in 1..(IF N < Shards THEN N ELSE Shards)
Next == t + Shards <= N /\ t' = t + Shards
Spec == Init /\ [][Next]_t

Proj(k) == [ty |-> k.ty, lit |-> k.lit, sl |-> k.sl, sc |-> k.sc, el |-> k.el, ec |-> k.ec,
            nl |-> k.nl, lead |-> k.lead]

NEOF(toks) == Len(SelectSeq(toks, LAMBDA k : k.ty = "EOF"))

Judge ==
  LET r     == Trace[t]
      fails == C10_Failures(r.src, r.toks)
      model == LexAll(r.src, r.extra)
      mproj == [i \in 1..Len(model) |-> Proj(model[i])]
  IN /\ (fails = {} \/ PrintT(<<"FAIL", r.id, fails>>))
     /\ (mproj = r.toks \/ PrintT(<<"DRIFT", r.id>>))

Accepted == (TLCGet("distinct") = N) \/ PrintT(<<"REJECTED", TLCGet("distinct"), N>>)
=============================================================================
