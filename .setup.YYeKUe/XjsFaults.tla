------------------------------ MODULE XjsFaults ------------------------------
(***************************************************************************)
(* Corruptions of a rendered program (token list ts with the renderer's    *)
(* marks): single-token deletion, removal of a statement separator (two    *)
(* statements fused on one line), truncation after a token and truncation  *)
(* inside a string / backtick literal.  Each fault yields the corrupted    *)
(* token list and `intact`: the index, in the corrupted list, of the last  *)
(* intact token before the corruption point (0: none).                     *)
(***************************************************************************)
EXTENDS XjsPrograms

DeleteToken(ts, i) == [toks |-> SubSeq(ts, 1, i - 1) \o SubSeq(ts, i + 1, Len(ts)), intact |-> i - 1, cut |-> 0]
\* separators: the opt `;` tokens that are followed by a sibling statement
IsSeparator(ts, j) == ts[j].opt /\ j < Len(ts) /\ ts[j + 1].sb
FuseAt(ts, j) == DeleteToken(ts, j)
TruncAfter(ts, i) == [toks |-> SubSeq(ts, 1, i), intact |-> i, cut |-> 0]
\* truncation inside literal token i: the text ends inside the literal (cut = index of the literal)
TruncInLiteral(ts, i) == [toks |-> SubSeq(ts, 1, i), intact |-> i - 1, cut |-> i]

\* brackets / blocks still open after the first i tokens
RECURSIVE OpenDepth(_, _)
OpenDepth(ts, i) ==
  IF i = 0 THEN 0
  ELSE OpenDepth(ts, i - 1)
       + (IF ts[i].ty \in {"LPAREN", "LBRACKET", "LBRACE"} THEN 1
          ELSE IF ts[i].ty \in {"RPAREN", "RBRACKET", "RBRACE"} THEN -1 ELSE 0)

Faults(ts) ==
  [del   |-> {DeleteToken(ts, i) : i \in 1..Len(ts)},
   fuse  |-> {FuseAt(ts, j) : j \in {k \in 1..Len(ts) : IsSeparator(ts, k)}},
   trunc |-> {TruncAfter(ts, i) : i \in {k \in 1..(Len(ts) - 1) : OpenDepth(ts, k) > 0}},
   lit   |-> {TruncInLiteral(ts, i) : i \in {k \in 1..Len(ts) : ts[k].ty \in {"STRING", "RAW_STRING"}}}]
=============================================================================
