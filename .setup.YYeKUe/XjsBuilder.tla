----------------------------- MODULE XjsBuilder -----------------------------
(***************************************************************************)
(* The registration bookkeeping of lexer.Builder and parser.Builder        *)
(* (lexer/builder.go, parser/builder.go) as a state machine, one action    *)
(* per public call.                                                        *)
(*   ids      name -> dynamic token id (lexer.Builder.dynamicTokens)       *)
(*   nextId   lexer.Builder.nextTokenID                                    *)
(*   rp, rpo  tokens with a registered prefix / postfix operator           *)
(*   ri       token -> level of a registered infix operator                *)
(*   hist     the calls made so far with the model's replies (a history    *)
(*            variable: it makes every call sequence a distinct state)     *)
(*   builds   parser configurations captured by Build()                    *)
(* Tokens are named: built-in token types by their Go constant, dynamic    *)
(* ones by the name they were registered under.                            *)
(***************************************************************************)
EXTENDS XjsGrammar

CONSTANTS Names,        \* names offered to RegisterTokenType
          BuiltinToks,  \* built-in token types offered to the Register*Operator calls
          InfixLevels,  \* levels offered to RegisterInfixOperator
          MaxCalls

VARIABLES ids, nextId, rp, ri, rpo, hist, builds
bvars == <<ids, nextId, rp, ri, rpo, hist, builds>>

DynStart == 1000

BInit == /\ ids = <<>> /\ nextId = DynStart /\ rp = {} /\ ri = <<>> /\ rpo = {}
         /\ hist = <<>> /\ builds = <<>>

Known == BuiltinToks \cup DOMAIN ids
Ev4(op, a, l, res) == [op |-> op, a |-> a, l |-> l, res |-> res]
Config == [cprefix |-> rp, cinfix |-> ri, cpostfix |-> rpo]

RegTok(n) ==
  /\ IF n \in DOMAIN ids
     THEN /\ hist' = Append(hist, Ev4("tok", n, 0, ids[n])) /\ UNCHANGED <<ids, nextId>>
     ELSE /\ ids' = ids @@ (n :> nextId) /\ nextId' = nextId + 1
          /\ hist' = Append(hist, Ev4("tok", n, 0, nextId))
  /\ UNCHANGED <<rp, ri, rpo, builds>>

RegPrefix(tk) ==
  /\ tk \in Known
  /\ IF tk \in BuiltinPrefixRole \cup rp
     THEN hist' = Append(hist, Ev4("prefix", tk, 0, -1)) /\ UNCHANGED rp          \* refused
     ELSE hist' = Append(hist, Ev4("prefix", tk, 0, 0)) /\ rp' = rp \cup {tk}
  /\ UNCHANGED <<ids, nextId, ri, rpo, builds>>

RegInfix(tk, l) ==
  /\ tk \in Known
  /\ IF tk \in BuiltinInfixRole \cup DOMAIN ri
     THEN hist' = Append(hist, Ev4("infix", tk, l, -1)) /\ UNCHANGED ri
     ELSE hist' = Append(hist, Ev4("infix", tk, l, 0)) /\ ri' = ri @@ (tk :> l)
  /\ UNCHANGED <<ids, nextId, rp, rpo, builds>>

RegPostfix(tk) ==
  /\ tk \in Known
  /\ IF tk \in BuiltinPostfixRole \cup rpo
     THEN hist' = Append(hist, Ev4("postfix", tk, 0, -1)) /\ UNCHANGED rpo
     ELSE hist' = Append(hist, Ev4("postfix", tk, 0, 0)) /\ rpo' = rpo \cup {tk}
  /\ UNCHANGED <<ids, nextId, rp, ri, builds>>

BNext ==
  /\ Len(hist) < MaxCalls
  /\ \/ \E n \in Names : RegTok(n)
     \/ \E tk \in BuiltinToks \cup Names : RegPrefix(tk) \/ RegPostfix(tk) \/ \E l \in InfixLevels : RegInfix(tk, l)

BSpec == BInit /\ [][BNext]_bvars

(* design-level properties of the machine *)
IdsFresh == \A n \in DOMAIN ids : ids[n] >= DynStart /\ ids[n] < nextId
IdsInjective == \A m, n \in DOMAIN ids : ids[m] = ids[n] => m = n
IdsStable == [][\A n \in DOMAIN ids : n \in DOMAIN ids' /\ ids'[n] = ids[n]]_bvars
RefusalChangesNothing ==
  [][(hist' # hist /\ hist'[Len(hist')].res = -1) => UNCHANGED <<ids, nextId, rp, ri, rpo>>]_bvars

=============================================================================
