----------------------------- MODULE Trace_C01 -----------------------------
(* Validation of compilations of executable programs.  One ndjson line per  *)
(* source text: {id, esrc (engine transcript of the source: [out, end]),    *)
(* eouts (configuration -> engine transcript of the compiled code), stoks / *)
(* otoks (token projections <<ty, lit>> of source and outputs, statement    *)
(* terminators removed), codes, mouts (printer model texts)}.               *)
(* Verdict (C01): every output prints the same values and completes in the  *)
(* same way as the source.  Lemma (reported, not a verdict): the output has *)
(* the source's token stream up to statement terminators and the spelling   *)
(* of string literals (compared by String Value).  Drift: printer model.    *)
EXTENDS XjsLiterals, Json, IOUtils, TLC

CONSTANT Shards
Trace == ndJsonDeserialize(IOEnv.VERIF_TRACE)
N == Len(Trace)

VARIABLE t
Init == t \in 1..(IF N < Shards THEN N ELSE Shards)
Next == t + Shards <= N /\ t' = t + Shards
Spec == Init /\ [][Next]_t

SameToken(a, b) ==
  /\ a[1] = b[1]
  /\ CASE a[1] = "STRING" -> SV(a[2]) = SV(b[2])
       [] a[1] = "RAW_STRING" -> TV(a[2]) = TV(b[2])
       [] a[1] \in {"IDENT", "INT", "FLOAT"} -> a[2] = b[2]
       [] OTHER -> TRUE
SameStream(x, y) == Len(x) = Len(y) /\ \A j \in 1..Len(x) : SameToken(x[j], y[j])

Judge ==
  LET r == Trace[t]
      bad == {c \in DOMAIN r.eouts : r.eouts[c] # r.esrc}
  IN /\ (bad = {} \/ PrintT(<<"FAIL", r.id, {"compiled_program_behaves_differently"}>>))
     /\ ((\A c \in DOMAIN r.otoks : SameStream(r.stoks, r.otoks[c])) \/ PrintT(<<"LEMMA", r.id>>))
     /\ ((\A c \in DOMAIN r.mouts : r.mouts[c] = r.codes[c]) \/ PrintT(<<"DRIFT", r.id>>))

Accepted == (TLCGet("distinct") = N) \/ PrintT(<<"REJECTED", TLCGet("distinct"), N>>)
=============================================================================
