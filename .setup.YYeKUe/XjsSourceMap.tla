--------------------------- MODULE XjsSourceMap ---------------------------
(***************************************************************************)
(* The source-map builder of xjslang/xjs (sourcemap/sourcemap.go, vlq.go)  *)
(* as a state machine, one action per public method, plus                  *)
(*   - the encoder transcribed as the code performs it (Encode, VLQEnc),   *)
(*   - an INDEPENDENT reference decoder of the Source Map v3 "mappings"    *)
(*     grammar (Decode), written from the format description only,         *)
(*   - the reference position rule for advancing over text (RefAdvance:    *)
(*     \n, \r\n and \r are one line break each).                           *)
(* Text handed to AdvanceString is a sequence of bytes (0..255).           *)
(***************************************************************************)
EXTENDS Integers, Sequences, TLC

---------------------------------------------------------------------------
(* Base64 VLQ *)

B64 == "ABCDEFGHIJKLMNOPQRSTUVWXYZabcdefghijklmnopqrstuvwxyz0123456789+/"
B64Char(d) == SubSeq(B64, d + 1, d + 1)
B64Set == {B64Char(d) : d \in 0..63}
B64Digit == [c \in B64Set |-> CHOOSE d \in 0..63 : B64Char(d) = c]

\* encodeVLQ of vlq.go: sign into the least significant bit, then 5-bit groups, least significant
\* group first, bit 6 (value 32) = "more groups follow".
RECURSIVE VLQGroups(_)
VLQGroups(n) ==
  LET digit == n % 32
      rest  == n \div 32
  IN  IF rest > 0 THEN <<digit + 32>> \o VLQGroups(rest) ELSE <<digit>>

VLQEnc(n) == VLQGroups(IF n < 0 THEN 2 * (-n) + 1 ELSE 2 * n)

RECURSIVE DigitsToString(_)
DigitsToString(ds) == IF ds = <<>> THEN "" ELSE B64Char(Head(ds)) \o DigitsToString(Tail(ds))

VLQStr(n) == DigitsToString(VLQEnc(n))

\* Reference VLQ decoding of a sequence of base64 digit values, starting at index i.
\* Returns [v |-> signed value, next |-> index after the last group, ok |-> well formed].
RECURSIVE VLQAcc(_, _, _, _)
VLQAcc(ds, i, shiftMul, acc) ==
  IF i > Len(ds) THEN [v |-> 0, next |-> i, ok |-> FALSE]
  ELSE LET d    == ds[i]
           acc2 == acc + (d % 32) * shiftMul
       IN  IF d >= 32 THEN VLQAcc(ds, i + 1, shiftMul * 32, acc2)
           ELSE [v |-> IF acc2 % 2 = 1 THEN -(acc2 \div 2) ELSE acc2 \div 2,
                 next |-> i + 1, ok |-> TRUE]

VLQDecAt(ds, i) == VLQAcc(ds, i, 1, 0)

\* All VLQ values of a segment (a sequence of digit values holding only complete groups).
RECURSIVE VLQAll(_, _)
VLQAll(ds, i) ==
  IF i > Len(ds) THEN [ok |-> TRUE, vs |-> <<>>]
  ELSE LET r == VLQDecAt(ds, i)
       IN  IF ~r.ok THEN [ok |-> FALSE, vs |-> <<>>]
           ELSE LET rest == VLQAll(ds, r.next)
                IN [ok |-> rest.ok, vs |-> <<r.v>> \o rest.vs]

---------------------------------------------------------------------------
(* Reference decoder for the "mappings" string (Source Map v3):            *)
(*   mappings = line (";" line)*, line = [segment ("," segment)*]          *)
(*   segment = 1, 4 or 5 VLQ fields: generated column (relative to the     *)
(*   previous segment of the SAME line, first of a line absolute), source  *)
(*   index, source line, source column, name index (each relative to the   *)
(*   previous occurrence of that field anywhere before).                   *)
(* Result: sequence of absolute segments in order of appearance, or        *)
(* <<[malformed |-> TRUE]>>.                                                        *)

CharsOf(s) == [i \in 1..Len(s) |-> SubSeq(s, i, i)]

Seg(gl, gc, src, sl, sc, named, ni) ==
  [gl |-> gl, gc |-> gc, src |-> src, sl |-> sl, sc |-> sc, named |-> named, ni |-> ni]

\* st = [gl, gc, src, sl, sc, ni]; cur = digit values of the segment being read
RECURSIVE DecodeFrom(_, _, _, _, _)
DecodeFrom(cs, i, st, cur, out) ==
  LET Flush ==
        IF cur = <<>> THEN [st |-> st, out |-> out, ok |-> TRUE]
        ELSE LET fa == VLQAll(cur, 1)
                 f  == fa.vs
             IN IF ~fa.ok \/ Len(f) \notin {1, 4, 5}
                THEN [st |-> st, out |-> out, ok |-> FALSE]
                ELSE IF Len(f) = 1
                THEN LET st2 == [st EXCEPT !.gc = st.gc + f[1]]
                     IN [st |-> st2, ok |-> TRUE,
                         out |-> Append(out, [gl |-> st2.gl, gc |-> st2.gc, bare |-> TRUE])]
                ELSE LET st2 == [st EXCEPT !.gc = st.gc + f[1], !.src = st.src + f[2],
                                           !.sl = st.sl + f[3], !.sc = st.sc + f[4],
                                           !.ni = IF Len(f) = 5 THEN st.ni + f[5] ELSE st.ni]
                     IN [st |-> st2, ok |-> TRUE,
                         out |-> Append(out, Seg(st2.gl, st2.gc, st2.src, st2.sl, st2.sc,
                                                 Len(f) = 5, IF Len(f) = 5 THEN st2.ni ELSE 0))]
  IN
  IF i > Len(cs) THEN (IF Flush.ok THEN Flush.out ELSE <<[malformed |-> TRUE]>>)
  ELSE IF cs[i] = ";" THEN
         IF ~Flush.ok THEN <<[malformed |-> TRUE]>>
         ELSE DecodeFrom(cs, i + 1, [Flush.st EXCEPT !.gl = @ + 1, !.gc = 0], <<>>, Flush.out)
  ELSE IF cs[i] = "," THEN
         IF ~Flush.ok \/ cur = <<>> THEN <<[malformed |-> TRUE]>>
         ELSE DecodeFrom(cs, i + 1, Flush.st, <<>>, Flush.out)
  ELSE IF cs[i] \in B64Set THEN DecodeFrom(cs, i + 1, st, Append(cur, B64Digit[cs[i]]), out)
  ELSE <<[malformed |-> TRUE]>>

Decode(str) ==
  DecodeFrom(CharsOf(str), 1, [gl |-> 0, gc |-> 0, src |-> 0, sl |-> 0, sc |-> 0, ni |-> 0],
             <<>>, <<>>)

---------------------------------------------------------------------------
(* Reference position tracking: the position reached after advancing over  *)
(* text s from <<line, col>>.  A line break is \n, \r\n or \r.             *)

CR == 13
LF == 10

\* indices i of s at which a line break ENDS
BreakEnds(s) ==
  {i \in 1..Len(s) : \/ s[i] = LF
                     \/ (s[i] = CR /\ ~(i < Len(s) /\ s[i + 1] = LF))}

RefAdvance(pos, s) ==
  LET be == BreakEnds(s)
  IN  IF be = {} THEN <<pos[1], pos[2] + Len(s)>>
      ELSE LET last == CHOOSE i \in be : \A j \in be : j <= i
               card == Len(SelectSeq([i \in 1..Len(s) |-> i], LAMBDA i : i \in be))
           IN <<pos[1] + card, Len(s) - last>>

---------------------------------------------------------------------------
(* The machine.                                                            *)

VARIABLES gl, gc, maps, names
smvars == <<gl, gc, maps, names>>

SMInit == gl = 0 /\ gc = 0 /\ maps = <<>> /\ names = <<>>

IndexOfName(ns, n) == CHOOSE i \in 1..Len(ns) : ns[i] = n
HasName(ns, n) == \E i \in 1..Len(ns) : ns[i] = n

AddMapping(sl, sc) ==
  /\ maps' = Append(maps, Seg(gl, gc, 0, sl, sc, FALSE, 0))
  /\ UNCHANGED <<gl, gc, names>>

AddNamedMapping(sl, sc, n) ==
  LET known == HasName(names, n)
      idx   == IF known THEN IndexOfName(names, n) - 1 ELSE Len(names)
  IN  /\ names' = IF known THEN names ELSE Append(names, n)
      /\ maps' = Append(maps, Seg(gl, gc, 0, sl, sc, TRUE, idx))
      /\ UNCHANGED <<gl, gc>>

AdvanceColumn(k) == gc' = gc + k /\ UNCHANGED <<gl, maps, names>>

\* AdvanceString as the code walks it: byte by byte, CR swallows a following LF.
RECURSIVE AdvWalk(_, _, _, _)
AdvWalk(s, i, l, c) ==
  IF i > Len(s) THEN <<l, c>>
  ELSE IF s[i] = CR THEN
         IF i + 1 <= Len(s) /\ s[i + 1] = LF THEN AdvWalk(s, i + 2, l + 1, 0)
         ELSE AdvWalk(s, i + 1, l + 1, 0)
  ELSE IF s[i] = LF THEN AdvWalk(s, i + 1, l + 1, 0)
  ELSE AdvWalk(s, i + 1, l, c + 1)

AdvanceString(s) ==
  LET p == AdvWalk(s, 1, gl, gc)
  IN  gl' = p[1] /\ gc' = p[2] /\ UNCHANGED <<maps, names>>

AdvanceLine == gl' = gl + 1 /\ gc' = 0 /\ UNCHANGED <<maps, names>>

---------------------------------------------------------------------------
(* encodeMappings as the code performs it: walk in insertion order, ';'    *)
(* while behind the mapping's line (resetting only the generated-column    *)
(* delta), ',' between segments of a line, always 4 fields (source index   *)
(* delta is 0 - prevSourceIndex with prevSourceIndex pinned to 0), a fifth *)
(* when named, relative to the previous NAMED segment.                     *)

RECURSIVE Semis(_)
Semis(n) == IF n <= 0 THEN "" ELSE ";" \o Semis(n - 1)

RECURSIVE EncodeFrom(_, _, _)
\* e = [line, pgc, psl, psc, pni, segs]
EncodeFrom(ms, i, e) ==
  IF i > Len(ms) THEN ""
  ELSE LET m      == ms[i]
           adv    == IF e.line < m.gl THEN m.gl - e.line ELSE 0
           line2  == IF adv > 0 THEN m.gl ELSE e.line
           pgc2   == IF adv > 0 THEN 0 ELSE e.pgc
           segs2  == IF adv > 0 THEN 0 ELSE e.segs
           txt    == Semis(adv) \o (IF segs2 > 0 THEN "," ELSE "")
                     \o VLQStr(m.gc - pgc2) \o VLQStr(0) \o VLQStr(m.sl - e.psl)
                     \o VLQStr(m.sc - e.psc)
                     \o (IF m.named THEN VLQStr(m.ni - e.pni) ELSE "")
       IN txt \o EncodeFrom(ms, i + 1,
                   [line |-> line2, pgc |-> m.gc, psl |-> m.sl, psc |-> m.sc,
                    pni |-> IF m.named THEN m.ni ELSE e.pni, segs |-> segs2 + 1])

Encode(ms) ==
  EncodeFrom(ms, 1, [line |-> 0, pgc |-> 0, psl |-> 0, psc |-> 0, pni |-> 0, segs |-> 0])

\* What SourceMap() returns in the current state
Snapshot == [version |-> 3, mappings |-> Encode(maps), names |-> names]

---------------------------------------------------------------------------
(* Reference semantics of a history of operations (independent of the      *)
(* machine above): the absolute mappings and first-seen names it records.  *)
(* An op is a record [op, sl, sc, n, k, b].                                *)

RECURSIVE RefRun(_, _, _, _, _)
RefRun(h, i, pos, ms, ns) ==
  IF i > Len(h) THEN [pos |-> pos, maps |-> ms, names |-> ns]
  ELSE LET o == h[i] IN
    CASE o.op = "map"  -> RefRun(h, i + 1, pos,
                                 Append(ms, Seg(pos[1], pos[2], 0, o.sl, o.sc, FALSE, 0)), ns)
      [] o.op = "nmap" -> LET ns2 == IF HasName(ns, o.n) THEN ns ELSE Append(ns, o.n)
                          IN RefRun(h, i + 1, pos,
                                    Append(ms, Seg(pos[1], pos[2], 0, o.sl, o.sc, TRUE,
                                                   IndexOfName(ns2, o.n) - 1)), ns2)
      [] o.op = "col"  -> RefRun(h, i + 1, <<pos[1], pos[2] + o.k>>, ms, ns)
      [] o.op = "str"  -> RefRun(h, i + 1, RefAdvance(pos, o.b), ms, ns)
      [] o.op = "line" -> RefRun(h, i + 1, <<pos[1] + 1, 0>>, ms, ns)

Ref(h) == RefRun(h, 1, <<0, 0>>, <<>>, <<>>)

\* The property C09 for a history h and an observed SourceMap() result sm
\* (a record with fields version, mappings, names).
P_C09_version(sm)     == sm.version = 3
P_C09_mappings(h, sm) == Decode(sm.mappings) = Ref(h).maps
P_C09_names(h, sm)    == sm.names = Ref(h).names
P_C09(h, sm) == P_C09_version(sm) /\ P_C09_mappings(h, sm) /\ P_C09_names(h, sm)

=============================================================================
