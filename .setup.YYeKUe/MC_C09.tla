------------------------------ MODULE MC_C09 ------------------------------
(* Model-checking front end for C09: enumerates ALL histories of source-map *)
(* builder operations up to MaxLen over small parameter domains, checks the *)
(* design-level invariants in every state, and exports every maximal        *)
(* history (with the model's predicted snapshots) for replay on the real    *)
(* sourcemap.SourceMapper.                                                  *)
EXTENDS XjsSourceMap, Json

CONSTANTS MaxLen, SrcPos, Names, Cols, Strs, Export

VARIABLE hist
vars == <<gl, gc, maps, names, hist>>

Op(op, sl, sc, n, k, b) == [op |-> op, sl |-> sl, sc |-> sc, n |-> n, k |-> k, b |-> b]

Init == SMInit /\ hist = <<>>

Next ==
  /\ Len(hist) < MaxLen
  /\ \/ \E p \in SrcPos : AddMapping(p[1], p[2]) /\ hist' = Append(hist, Op("map", p[1], p[2], "", 0, <<>>))
     \/ \E p \in SrcPos, n \in Names :
           AddNamedMapping(p[1], p[2], n) /\ hist' = Append(hist, Op("nmap", p[1], p[2], n, 0, <<>>))
     \/ \E k \in Cols : AdvanceColumn(k) /\ hist' = Append(hist, Op("col", 0, 0, "", k, <<>>))
     \/ \E s \in Strs : AdvanceString(s) /\ hist' = Append(hist, Op("str", 0, 0, "", 0, s))
     \/ AdvanceLine /\ hist' = Append(hist, Op("line", 0, 0, "", 0, <<>>))

Spec == Init /\ [][Next]_vars

---------------------------------------------------------------------------
(* Design-level invariants *)

\* the machine agrees with the reference semantics of its history
InvRef == LET r == Ref(hist) IN r.pos = <<gl, gc>> /\ r.maps = maps /\ r.names = names

\* what SourceMap() would return satisfies the property
InvP == P_C09(hist, Snapshot)

\* names are deduplicated
InvNames == \A i, j \in 1..Len(names) : names[i] = names[j] => i = j

\* segments are recorded in order of generated position
InvSorted == \A i \in 1..(Len(maps) - 1) :
               \/ maps[i].gl < maps[i + 1].gl
               \/ (maps[i].gl = maps[i + 1].gl /\ maps[i].gc <= maps[i + 1].gc)

\* name indices are stable: names only ever grows at the end (action property)
IsPrefixSeq(a, b) == Len(a) <= Len(b) /\ SubSeq(b, 1, Len(a)) = a
StableNames == [][IsPrefixSeq(names, names') /\ IsPrefixSeq(maps, maps')]_vars

\* export of maximal histories (side effect only)
InvExport ==
  (Export /\ Len(hist) = MaxLen) =>
     PrintT(ToJson([ops |-> hist, pred |-> Snapshot]))

\* parameter domains used by the configs
QSrcPos == {<<0, 0>>, <<0, 7>>, <<1, 0>>, <<40000, 3>>}
TSrcPos == {<<0, 0>>, <<0, 7>>, <<1, 0>>, <<40000, 3>>, <<7, 40000>>, <<1, 1>>}
QStrs == {<<97>>, <<10>>, <<13, 10>>, <<13>>, <<97, 10, 98>>, <<13, 13, 10>>, <<10, 13>>}
TStrs == QStrs \cup {<<13, 10, 13, 10, 97>>, <<97, 98, 13>>, <<195, 169, 10, 10>>}
=============================================================================
