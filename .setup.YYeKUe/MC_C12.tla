------------------------------ MODULE MC_C12 ------------------------------
(* Fault enumeration for strict mode: every program of the program space,   *)
(* rendered with `;` separators on one line and with line-break separators, *)
(* and every fault of XjsFaults on it.  Each corrupted token list is        *)
(* exported with the index of the last intact token; the parser model says  *)
(* whether IT reports an error at or after that token (a model that accepts *)
(* is only a candidate: whether the text is still JavaScript is decided by  *)
(* reference parsers outside TLC).                                          *)
EXTENDS XjsFaults, Json, FiniteSets, TLC, SequencesExt

CONSTANTS Depth, MaxStmts, Contexts, Export

VARIABLES t, d, ss
vars == <<t, d, ss>>

Init == \/ t \in Atoms /\ d = 0 /\ ss = <<>>
        \/ MaxStmts > 0 /\ t = Nil /\ d = 0 /\ ss = <<>>
Next == \/ t # Nil /\ d < Depth /\ t' \in Wraps(t) /\ d' = d + 1 /\ UNCHANGED ss
        \/ t = Nil /\ Len(ss) < MaxStmts /\ \E s \in Templates : ss' = Append(ss, s) /\ UNCHANGED <<t, d>>
Spec == Init /\ [][Next]_vars

Programs ==
  IF t # Nil THEN {Ctx(c, t) : c \in Contexts}
  ELSE IF Len(ss) = 0 THEN {}
  ELSE (IF TopOK(ss) THEN {Prog(ss)} ELSE {}) \cup {Prog(<<Node("fdecl", "", <<Id("h"), PList(<<>>), Blk(ss)>>)>>)}

Slim(toks) == [j \in 1..Len(toks) |-> [ty |-> toks[j].ty, lit |-> toks[j].lit, nl |-> toks[j].nl]]

\* strict-mode model verdict on a corrupted token list
ModelVerdict(toks, intact) ==
  LET r == ParseProgram(DefaultP(toks))
  IN IF Len(r.errs) = 0 THEN "accepts"
     ELSE IF r.errs[1].at >= intact THEN "rejects" ELSE "rejects_too_early"

OneB(kind, f, sep, brk) ==
  LET toks == Layout(f.toks, sep, brk)
      \* indices shift when sep = 2 drops the opt semicolons in front of the intact token
      dropped == IF sep = 2 THEN Cardinality({j \in 1..f.intact : f.toks[j].opt}) ELSE 0
      intact == f.intact - dropped
      cut == IF f.cut = 0 THEN 0 ELSE f.cut - (IF sep = 2 THEN Cardinality({j \in 1..f.cut : f.toks[j].opt}) ELSE 0)
      mv == IF f.cut = 0 THEN ModelVerdict(toks, intact) ELSE "n/a"
  IN [kind |-> kind, intact |-> intact, cut |-> cut, model |-> mv, toks |-> Slim(toks)]

One(kind, f, sep) == OneB(kind, f, sep, {})

Inv == \A p \in Programs :
         StmtStartsOK(p, <<>>) =>
           LET ts == RenderProg(p, FALSE, <<>>)
               fs == Faults(ts)
           IN \A sep \in {1, 2} :
                SepOK(ts, sep) =>
                  LET all == {One("del", f, sep) : f \in fs.del}
                             \cup (IF sep = 1 THEN {One("fuse", f, sep) : f \in fs.fuse} ELSE {})
                             \cup {One("trunc", f, sep) : f \in fs.trunc}
                             \cup {One("lit", f, sep) : f \in fs.lit}
                      hasFor == \E j \in 1..Len(ts) : ts[j].ty = "FOR"
                      \* headers spread over several lines: a line break in every gap
                      spread == IF hasFor /\ sep = 1 THEN {OneB("del", f, 1, 1..Len(ts)) : f \in fs.del} ELSE {}
                  IN /\ (Export => PrintT(ToJson([orig |-> Slim(Layout(ts, sep, {})), faults |-> SetToSeq(all)])))
                     /\ ((Export /\ spread # {}) => PrintT(ToJson([orig |-> Slim(Layout(ts, 1, 1..Len(ts))), faults |-> SetToSeq(spread)])))
=============================================================================
