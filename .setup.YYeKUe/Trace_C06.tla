----------------------------- MODULE Trace_C06 -----------------------------
(* Validation of compilations recorded from the REAL compiler.  One ndjson  *)
(* line per source text: {id, stoks, stree, outs (by configuration name:    *)
(* code, nerr, tree, code2, otoks), traced (configuration name -> recorded  *)
(* code-writer operations, projected to XjsWriter ops, with the writer      *)
(* configuration), plain (the same program without comments), mouts (the    *)
(* printer model's texts for undecorated programs)}.                        *)
(* Verdicts: C06_Failures ("FAIL"), C15_Failures ("FAIL15").  Drift: the    *)
(* XjsWriter machine, fed with the recorded operations, produces the text   *)
(* the real writer produced; the printer model's text equals the real one.  *)
EXTENDS XjsLayout, Json, IOUtils

CONSTANT Shards
Trace == ndJsonDeserialize(IOEnv.VERIF_TRACE)
N == Len(Trace)

VARIABLE t
Init == t \in 1..(IF N < Shards THEN N ELSE Shards)
Next == t + Shards <= N /\ t' = t + Shards
Spec == Init /\ [][Next]_t

Judge ==
  LET r0  == Trace[t]
      r   == [r0 EXCEPT !.stree = Unflat(@), !.outs = [n \in DOMAIN r0.outs |-> [r0.outs[n] EXCEPT !.tree = Unflat(@)]]]
      f06 == C06_Failures(r)
      f15 == C15_Failures(r)
      wok == \A n \in DOMAIN r.traced :
               WriterConforms(Cfg(r.traced[n].pretty, r.traced[n].unit, r.traced[n].semis, r.traced[n].map),
                              r.traced[n].ops, r.outs[n].code)
      mok == \A n \in DOMAIN r.mouts : r.mouts[n] = r.outs[n].code
  IN /\ (f06 = {} \/ PrintT(<<"FAIL", r.id, f06>>))
     /\ (f15 = {} \/ PrintT(<<"FAIL15", r.id, f15>>))
     /\ (wok \/ PrintT(<<"DRIFT", r.id, "writer">>))
     /\ (mok \/ PrintT(<<"DRIFT", r.id, "printer">>))

Accepted == (TLCGet("distinct") = N) \/ PrintT(<<"REJECTED", TLCGet("distinct"), N>>)
=============================================================================
