----------------------------- MODULE Trace_C09 -----------------------------
(* Trace validation for C09: every line of the ndjson file is one execution *)
(* recorded from the REAL sourcemap.SourceMapper: the operations applied    *)
(* and the SourceMap() snapshot observed after each of them.  The trace     *)
(* spec re-uses the machine's actions; after each step it evaluates the     *)
(* declarative property P_C09 on the REAL snapshot (verdict) and compares   *)
(* the real snapshot with the model's (drift).  Traces are concatenated     *)
(* (TraceReset) and striped over Shards initial states so that TLC's        *)
(* workers validate them in parallel.                                       *)
EXTENDS XjsSourceMap, Json, IOUtils

CONSTANT Shards

Trace == ndJsonDeserialize(IOEnv.VERIF_TRACE)
N == Len(Trace)

VARIABLES t, l
tvars == <<gl, gc, maps, names, t, l>>

TraceInit == /\ t \in 1..(IF N < Shards THEN N ELSE Shards)
             /\ l = 1
             /\ SMInit

Apply(o) ==
  CASE o.op = "map"  -> AddMapping(o.sl, o.sc)
    [] o.op = "nmap" -> AddNamedMapping(o.sl, o.sc, o.n)
    [] o.op = "col"  -> AdvanceColumn(o.k)
    [] o.op = "str"  -> AdvanceString(o.b)
    [] o.op = "line" -> AdvanceLine

\* verdict on the real snapshot after the l-th operation of trace t
Verdict(tr, k, real) ==
  LET h == SubSeq(tr.ops, 1, k) IN
  /\ (P_C09_version(real)     \/ PrintT(<<"FAIL", tr.id, k, "version">>))
  /\ (P_C09_mappings(h, real) \/ PrintT(<<"FAIL", tr.id, k, "mappings">>))
  /\ (P_C09_names(h, real)    \/ PrintT(<<"FAIL", tr.id, k, "names">>))

Drift(tr, k, real, model) ==
  (real.mappings = model.mappings /\ real.names = model.names)
     \/ PrintT(<<"DRIFT", tr.id, k, "snapshot">>)

TraceStep ==
  /\ t <= N /\ l <= Len(Trace[t].ops)
  /\ Apply(Trace[t].ops[l])
  /\ l' = l + 1 /\ t' = t
  /\ (Trace[t].every \/ l = Len(Trace[t].ops)) =>
        /\ Verdict(Trace[t], l, Trace[t].snaps[l + 1])
        /\ Drift(Trace[t], l, Trace[t].snaps[l + 1],
                 [mappings |-> Encode(maps'), names |-> names'])

TraceReset ==
  /\ t <= N /\ l > Len(Trace[t].ops)
  /\ t + Shards <= N
  /\ t' = t + Shards /\ l' = 1
  /\ gl' = 0 /\ gc' = 0 /\ maps' = <<>> /\ names' = <<>>

TraceNext == TraceStep \/ TraceReset
TraceSpec == TraceInit /\ [][TraceNext]_tvars

\* every recorded event was consumed: one state per event plus one per trace
RECURSIVE SumLens(_)
SumLens(i) == IF i > N THEN 0 ELSE Len(Trace[i].ops) + 1 + SumLens(i + 1)
TraceAccepted ==
  (TLCGet("distinct") = SumLens(1)) \/ PrintT(<<"REJECTED", TLCGet("distinct"), SumLens(1)>>)
=============================================================================
