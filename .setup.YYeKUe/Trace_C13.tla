----------------------------- MODULE Trace_C13 -----------------------------
(* Validation of the results the REAL parser returned in its four mode      *)
(* combinations for one input (one ndjson line per input), against the mode *)
(* contract C13_Failures of XjsGrammar.                                     *)
EXTENDS XjsGrammar, Json, IOUtils

CONSTANT Shards
Trace == ndJsonDeserialize(IOEnv.VERIF_TRACE)
N == Len(Trace)

VARIABLE t
Init == t \in 1..(IF N < Shards THEN N ELSE Shards)
Next == t + Shards <= N /\ t' = t + Shards
Spec == Init /\ [][Next]_t

Judge ==
  LET r0    == Trace[t]
      U(x)  == [x EXCEPT !.tree = Unflat(@)]
      r     == [r0 EXCEPT !.want = Unflat(@), !.r00 = U(@), !.r10 = U(@), !.r01 = U(@), !.r11 = U(@), !.ra = U(@)]
      fails == C13_Failures(r)
  IN fails = {} \/ PrintT(<<"FAIL", r.id, fails>>)

Accepted == (TLCGet("distinct") = N) \/ PrintT(<<"REJECTED", TLCGet("distinct"), N>>)
=============================================================================
