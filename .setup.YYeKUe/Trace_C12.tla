----------------------------- MODULE Trace_C12 -----------------------------
(* Validation of the strict-mode results of the REAL parser on corrupted   *)
(* programs that the reference JavaScript parsers reject.  One ndjson line  *)
(* per execution: {id, kind, intact, toks (real tokens, positions), errors  *)
(* (real)}.  Verdict: C12_Failures of XjsGrammar.                           *)
EXTENDS XjsGrammar, Json, IOUtils

CONSTANT Shards
Trace == ndJsonDeserialize(IOEnv.VERIF_TRACE)
N == Len(Trace)

VARIABLE t
Init == t \in 1..(IF N < Shards THEN N ELSE Shards)
Next == t + Shards <= N /\ t' = t + Shards
Spec == Init /\ [][Next]_t

Judge ==
  LET r     == Trace[t]
      fails == C12_Failures(r)
  IN fails = {} \/ PrintT(<<"FAIL", r.id, fails>>)

Accepted == (TLCGet("distinct") = N) \/ PrintT(<<"REJECTED", TLCGet("distinct"), N>>)
=============================================================================
