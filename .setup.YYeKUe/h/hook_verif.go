//go:build verif

package main

import "github.com/xjslang/xjs/ast"

const hooksOn = true

type wop struct {
	Op  string `json:"op"`
	Arg string `json:"arg"`
}

// traceWriter records the code-writer operations performed while f runs.
func traceWriter(f func()) []wop {
	ops := []wop{}
	ast.VerifWriterHook = func(cw *ast.CodeWriter, op, arg string) {
		ops = append(ops, wop{Op: op, Arg: safeStr(arg)})
	}
	defer func() { ast.VerifWriterHook = nil }()
	f()
	return ops
}
