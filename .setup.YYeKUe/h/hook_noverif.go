//go:build !verif

package main

const hooksOn = false

type wop struct {
	Op  string `json:"op"`
	Arg string `json:"arg"`
}

func traceWriter(f func()) []wop {
	f()
	return nil
}
