package main

import (
	"encoding/json"

	"github.com/xjslang/xjs/ast"
	"github.com/xjslang/xjs/lexer"
	"github.com/xjslang/xjs/parser"
	"github.com/xjslang/xjs/token"
)

type ctok struct {
	Ty   string   `json:"ty"`
	Lit  string   `json:"lit"`
	NL   bool     `json:"nl"`
	SL   int      `json:"sl"`
	SC   int      `json:"sc"`
	EL   int      `json:"el"`
	EC   int      `json:"ec"`
	Lead []string `json:"lead"`
}

func lexWithTrivia(src string) []ctok {
	l := lexer.NewBuilder().Build(src)
	out := []ctok{}
	for i := 0; i < 4*len(src)+16; i++ {
		t := l.NextToken()
		lead := []string{}
		for _, c := range t.LeadingComments {
			lead = append(lead, safeStr(c))
		}
		out = append(out, ctok{Ty: tokName(t.Type), Lit: safeStr(t.Literal), NL: t.AfterNewline, SL: t.Start.Line, SC: t.Start.Column,
			EL: t.End.Line, EC: t.End.Column, Lead: lead})
		if t.Type == token.EOF {
			break
		}
	}
	return out
}

type compiled struct {
	Cfg   string         `json:"cfg"`
	Code  []int          `json:"code"`
	Nerr  int            `json:"nerr"`
	Err0  string         `json:"err0"`
	Tree  *node          `json:"tree"`
	Code2 []int          `json:"code2"`
	OToks []ctok         `json:"otoks"`
	Map   map[string]any `json:"map,omitempty"`
	Ops   []wop          `json:"ops,omitempty"`
	Panic string         `json:"panic,omitempty"`
	// Unstable: a second Compile() on a Compiler that had already compiled gave another result
	// (Code/Map are then those of the later compilation)
	Unstable bool `json:"unstable,omitempty"`
}

// compileAgain builds ONE compiler for the configuration, compiles the tree twice with it and
// returns the second result; unstable reports whether it differs from the given first result.
func compileAgain(name string, prog *ast.Program, code1 string, sm1 map[string]any) (string, map[string]any, bool) {
	defer func() { _ = recover() }()
	cc := cfgByName(name).compiler()
	_ = cc.Compile(prog)
	res := cc.Compile(prog)
	var sm map[string]any
	if res.SourceMap != nil {
		names := res.SourceMap.Names
		if names == nil {
			names = []string{}
		}
		sm = map[string]any{"version": res.SourceMap.Version, "mappings": res.SourceMap.Mappings, "names": names}
	}
	b1, _ := json.Marshal(sm1)
	b2, _ := json.Marshal(sm)
	return res.Code, sm, res.Code != code1 || string(b1) != string(b2)
}

// compile: {"id":..,"src":[bytes],"cfgs":[names],"trace":[names]} -> the source is parsed once (default
// parser); the tree is compiled in every configuration; each output is lexed, parsed again and
// compiled again.  For the configurations in "trace" the code-writer operations are recorded
// (needs the verif build tag).
func init() {
	register("compile", func(raw json.RawMessage) (any, error) {
		var c struct {
			Src   []int    `json:"src"`
			Cfgs  []string `json:"cfgs"`
			Trace []string `json:"trace"`
		}
		if err := json.Unmarshal(raw, &c); err != nil {
			return nil, err
		}
		src := bytesOf(c.Src)
		p := parser.NewBuilder(lexer.NewBuilder()).Build(src)
		prog, _ := p.ParseProgram()
		res := map[string]any{"stoks": lexWithTrivia(src), "stree": projProgram(prog), "snerr": len(p.Errors()), "hooks": hooksOn}
		if len(p.Errors()) > 0 {
			res["serr0"] = p.Errors()[0].Message
			return res, nil
		}
		traced := map[string]bool{}
		for _, n := range c.Trace {
			traced[n] = true
		}
		outs := []compiled{}
		for _, name := range c.Cfgs {
			var code, perr string
			var sm map[string]any
			var ops []wop
			if traced[name] {
				ops = traceWriter(func() { code, sm, perr = safeCompile(name, prog) })
			} else {
				code, sm, perr = safeCompile(name, prog)
			}
			unstable := false
			if perr == "" {
				// one Compiler object compiles the same tree again: the result must not depend on it
				code, sm, unstable = compileAgain(name, prog, code, sm)
			}
			o := compiled{Cfg: name, Code: intsOf(code), Map: sm, Ops: ops, Panic: perr, Unstable: unstable}
			if perr == "" {
				p2, tr, nerr, e0 := reparse(code)
				o.Nerr, o.Err0, o.Tree = nerr, e0, tr
				if nerr == 0 {
					code2, _, _ := safeCompile(name, p2)
					o.Code2 = intsOf(code2)
				}
				o.OToks = lexWithTrivia(code)
			}
			outs = append(outs, o)
		}
		res["outs"] = outs
		return res, nil
	})
}
