module verifharness

go 1.23.0

require github.com/xjslang/xjs v0.0.0

require github.com/davecgh/go-spew v1.1.1 // indirect

replace github.com/xjslang/xjs => /repo
