package main

import (
	"encoding/json"

	"github.com/xjslang/xjs/lexer"
	"github.com/xjslang/xjs/parser"
)

// parsemodes: {"id":..,"src":[bytes],"order":[[tol,smart],...]} -> one parser.Builder is
// reconfigured and Build() is called once per mode IN THE GIVEN ORDER; only after all parsers
// exist is each of them run.  Results are keyed "r<tol><smart>".
func init() {
	register("parsemodes", func(raw json.RawMessage) (any, error) {
		var c struct {
			Src   []int     `json:"src"`
			Order [][2]bool `json:"order"`
		}
		if err := json.Unmarshal(raw, &c); err != nil {
			return nil, err
		}
		src := bytesOf(c.Src)
		lb := lexer.NewBuilder()
		pb := parser.NewBuilder(lb)
		ps := make([]*parser.Parser, len(c.Order))
		for i, m := range c.Order {
			pb.WithTolerantMode(m[0]).WithSmartSemicolon(m[1])
			ps[i] = pb.Build(src)
		}
		out := map[string]any{"toks": lexForParser(lexer.NewBuilder(), src)}
		b2i := func(b bool) string {
			if b {
				return "1"
			}
			return "0"
		}
		for i, m := range c.Order {
			prog, err := ps[i].ParseProgram()
			out["r"+b2i(m[0])+b2i(m[1])] = map[string]any{"tree": projProgram(prog), "nerr": len(ps[i].Errors()), "err": err != nil}
		}
		return out, nil
	})
}
