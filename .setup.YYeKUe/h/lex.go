package main

import (
	"encoding/json"
	"fmt"

	"github.com/xjslang/xjs/lexer"
	"github.com/xjslang/xjs/token"
)

var tokenNames = map[token.Type]string{
	token.ILLEGAL: "ILLEGAL", token.EOF: "EOF", token.IDENT: "IDENT", token.INT: "INT", token.FLOAT: "FLOAT",
	token.STRING: "STRING", token.RAW_STRING: "RAW_STRING", token.ASSIGN: "ASSIGN",
	token.PLUS_ASSIGN: "PLUS_ASSIGN", token.MINUS_ASSIGN: "MINUS_ASSIGN", token.PLUS: "PLUS",
	token.MINUS: "MINUS", token.MULTIPLY: "MULTIPLY", token.DIVIDE: "DIVIDE", token.MODULO: "MODULO",
	token.EQ: "EQ", token.NOT_EQ: "NOT_EQ", token.LT: "LT", token.GT: "GT", token.LTE: "LTE", token.GTE: "GTE",
	token.AND: "AND", token.OR: "OR", token.NOT: "NOT", token.INCREMENT: "INCREMENT",
	token.DECREMENT: "DECREMENT", token.COMMA: "COMMA", token.SEMICOLON: "SEMICOLON", token.COLON: "COLON",
	token.DOT: "DOT", token.LPAREN: "LPAREN", token.RPAREN: "RPAREN", token.LBRACE: "LBRACE",
	token.RBRACE: "RBRACE", token.LBRACKET: "LBRACKET", token.RBRACKET: "RBRACKET",
	token.FUNCTION: "FUNCTION", token.LET: "LET", token.IF: "IF", token.ELSE: "ELSE", token.WHILE: "WHILE",
	token.FOR: "FOR", token.RETURN: "RETURN", token.TRUE: "TRUE", token.FALSE: "FALSE", token.NULL: "NULL",
}

func tokName(t token.Type) string {
	if n, ok := tokenNames[t]; ok {
		return n
	}
	if t >= token.DYNAMIC_TOKENS_START {
		return fmt.Sprintf("DYN%d", int(t-token.DYNAMIC_TOKENS_START))
	}
	return fmt.Sprintf("UNKNOWN%d", int(t))
}

type tokJ struct {
	Ty   string  `json:"ty"`
	Lit  []int   `json:"lit"`
	SL   int     `json:"sl"`
	SC   int     `json:"sc"`
	EL   int     `json:"el"`
	EC   int     `json:"ec"`
	NL   bool    `json:"nl"`
	Lead [][]int `json:"lead"`
}

func tokOf(t token.Token) tokJ {
	lead := make([][]int, 0, len(t.LeadingComments))
	for _, c := range t.LeadingComments {
		lead = append(lead, intsOf(c))
	}
	return tokJ{Ty: tokName(t.Type), Lit: intsOf(t.Literal), SL: t.Start.Line, SC: t.Start.Column,
		EL: t.End.Line, EC: t.End.Column, NL: t.AfterNewline, Lead: lead}
}

// lexAll returns every token up to and including the first EOF plus `extra` further requests.
// overflow is set when the lexer keeps producing tokens far beyond what the input can hold.
func lexAll(src string, extra int) (toks []tokJ, overflow bool) {
	l := lexer.NewBuilder().Build(src)
	limit := 4*len(src) + 16
	for {
		t := l.NextToken()
		toks = append(toks, tokOf(t))
		if t.Type == token.EOF {
			if extra == 0 {
				return toks, false
			}
			extra--
		}
		if len(toks) > limit {
			return toks, true
		}
	}
}

func init() {
	// lex: {"id":..,"src":[bytes],"extra":n} -> {"toks":[...],"overflow":bool}
	register("lex", func(raw json.RawMessage) (any, error) {
		var c struct {
			Src   []int `json:"src"`
			Extra int   `json:"extra"`
		}
		if err := json.Unmarshal(raw, &c); err != nil {
			return nil, err
		}
		toks, of := lexAll(bytesOf(c.Src), c.Extra)
		return map[string]any{"toks": toks, "overflow": of}, nil
	})
}
