// Command xjsh is the conformance harness: it drives the public API of xjslang/xjs on cases read
// as ndjson from stdin and writes one ndjson observation per case to stdout. It contains no oracle:
// predicates live in the TLA+ specification (see /verif/spec), verdict plumbing in /verif/lib.
package main

import (
	"bufio"
	"encoding/json"
	"fmt"
	"os"
	"runtime/debug"
	"time"
)

type handler func(raw json.RawMessage) (any, error)

var handlers = map[string]handler{}

func register(name string, h handler) { handlers[name] = h }

type result struct {
	ID    any    `json:"id"`
	Obs   any    `json:"obs,omitempty"`
	Panic string `json:"panic,omitempty"`
	Hang  bool   `json:"hang,omitempty"`
	Err   string `json:"err,omitempty"`
}

func main() {
	if len(os.Args) < 2 {
		fmt.Fprintln(os.Stderr, "usage: xjsh <command>  (ndjson cases on stdin)")
		os.Exit(2)
	}
	h, ok := handlers[os.Args[1]]
	if !ok {
		fmt.Fprintf(os.Stderr, "unknown command %q\n", os.Args[1])
		os.Exit(2)
	}
	budget := 5 * time.Second
	if v := os.Getenv("XJSH_CASE_TIMEOUT_MS"); v != "" {
		var ms int
		fmt.Sscan(v, &ms)
		if ms > 0 {
			budget = time.Duration(ms) * time.Millisecond
		}
	}
	in := bufio.NewReaderSize(os.Stdin, 1<<20)
	out := bufio.NewWriterSize(os.Stdout, 1<<20)
	defer out.Flush()
	enc := json.NewEncoder(out)
	enc.SetEscapeHTML(false)
	for {
		line, err := in.ReadBytes('\n')
		if len(line) > 1 {
			var hdr struct {
				ID any `json:"id"`
			}
			if e := json.Unmarshal(line, &hdr); e != nil {
				fmt.Fprintf(os.Stderr, "bad case line: %v\n", e)
				os.Exit(2)
			}
			res := runCase(h, line, budget)
			res.ID = hdr.ID
			enc.Encode(res)
			if res.Hang {
				// the stuck goroutine cannot be killed: flush and let the orchestrator restart us
				out.Flush()
				os.Exit(3)
			}
		}
		if err != nil {
			break
		}
	}
}

func runCase(h handler, line []byte, budget time.Duration) result {
	ch := make(chan result, 1)
	go func() {
		var r result
		defer func() {
			if p := recover(); p != nil {
				r = result{Panic: fmt.Sprintf("%v\n%s", p, firstFrames(debug.Stack()))}
			}
			ch <- r
		}()
		obs, err := h(json.RawMessage(line))
		if err != nil {
			r.Err = err.Error()
		}
		r.Obs = obs
	}()
	select {
	case r := <-ch:
		return r
	case <-time.After(budget):
		return result{Hang: true}
	}
}

func firstFrames(b []byte) string {
	if len(b) > 1500 {
		b = b[:1500]
	}
	return string(b)
}
