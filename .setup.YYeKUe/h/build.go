package main

import (
	"encoding/json"
	"fmt"

	"github.com/xjslang/xjs/ast"
	"github.com/xjslang/xjs/lexer"
	"github.com/xjslang/xjs/parser"
	"github.com/xjslang/xjs/token"
)

var opTypes = map[string]token.Type{"||": token.OR, "&&": token.AND, "==": token.EQ, "!=": token.NOT_EQ, "<": token.LT,
	">": token.GT, "<=": token.LTE, ">=": token.GTE, "+": token.PLUS, "-": token.MINUS, "*": token.MULTIPLY,
	"/": token.DIVIDE, "%": token.MODULO, "!": token.NOT, "++": token.INCREMENT, "--": token.DECREMENT,
	"=": token.ASSIGN, "+=": token.PLUS_ASSIGN, "-=": token.MINUS_ASSIGN}

func tk(t token.Type, lit string) token.Token { return token.Token{Type: t, Literal: lit} }

// buildExpr assembles ast nodes programmatically from the uniform tree shape (no trivia, no
// positions; operator nodes get the token type their Precedence() reads).
func buildExpr(n *node) ast.Expression {
	if n == nil || n.K == "nil" {
		return nil
	}
	switch n.K {
	case "id":
		return &ast.Identifier{Token: tk(token.IDENT, n.Op), Value: n.Op}
	case "num":
		return &ast.IntegerLiteral{Token: tk(token.INT, n.Op)}
	case "flt":
		return &ast.FloatLiteral{Token: tk(token.FLOAT, n.Op)}
	case "str":
		return &ast.StringLiteral{Token: tk(token.STRING, n.Op), Value: n.Op}
	case "raw":
		return &ast.MultiStringLiteral{Token: tk(token.RAW_STRING, n.Op), Value: n.Op}
	case "bool":
		if n.Op == "true" {
			return &ast.BooleanLiteral{Token: tk(token.TRUE, "true"), Value: true}
		}
		return &ast.BooleanLiteral{Token: tk(token.FALSE, "false"), Value: false}
	case "null":
		return &ast.NullLiteral{Token: tk(token.NULL, "null")}
	case "lete":
		return &ast.LetExpression{Token: tk(token.LET, "let"), Name: buildIdent(n.C[0]), Value: buildExpr(n.C[1])}
	case "bin":
		return &ast.BinaryExpression{Token: tk(opTypes[n.Op], n.Op), Left: buildExpr(n.C[0]), Operator: n.Op, Right: buildExpr(n.C[1])}
	case "un":
		return &ast.UnaryExpression{Token: tk(opTypes[n.Op], n.Op), Operator: n.Op, Right: buildExpr(n.C[0])}
	case "post":
		return &ast.PostfixExpression{Token: tk(opTypes[n.Op], n.Op), Left: buildExpr(n.C[0]), Operator: n.Op}
	case "grp":
		return &ast.GroupedExpression{Token: tk(token.LPAREN, "("), Expression: buildExpr(n.C[0]), RParen: tk(token.RPAREN, ")")}
	case "call":
		ce := &ast.CallExpression{Token: tk(token.LPAREN, "("), Function: buildExpr(n.C[0]), Arguments: []ast.Expression{}}
		for _, a := range n.C[1:] {
			ce.Arguments = append(ce.Arguments, buildExpr(a))
		}
		return ce
	case "mem":
		return &ast.MemberExpression{Token: tk(token.DOT, "."), Object: buildExpr(n.C[0]), Property: buildExpr(n.C[1])}
	case "idx":
		return &ast.MemberExpression{Token: tk(token.LBRACKET, "["), Object: buildExpr(n.C[0]), Property: buildExpr(n.C[1]), Computed: true}
	case "asg":
		return &ast.AssignmentExpression{Token: tk(token.ASSIGN, "="), Left: buildExpr(n.C[0]), Value: buildExpr(n.C[1])}
	case "casg":
		return &ast.CompoundAssignmentExpression{Token: tk(opTypes[n.Op], n.Op), Left: buildExpr(n.C[0]), Operator: n.Op[:1], Value: buildExpr(n.C[1])}
	case "fn":
		fe := &ast.FunctionExpression{Token: tk(token.FUNCTION, "function"), Parameters: []*ast.Identifier{}, Body: buildBlock(n.C[2])}
		if n.C[0].K != "nil" {
			fe.Name = buildIdent(n.C[0])
		}
		for _, p := range n.C[1].C {
			fe.Parameters = append(fe.Parameters, buildIdent(p))
		}
		return fe
	case "arr":
		al := &ast.ArrayLiteral{Token: tk(token.LBRACKET, "["), Elements: []ast.Expression{}, RBracket: tk(token.RBRACKET, "]")}
		for _, e := range n.C {
			al.Elements = append(al.Elements, buildExpr(e))
		}
		return al
	case "obj":
		ol := &ast.ObjectLiteral{Token: tk(token.LBRACE, "{"), RBrace: tk(token.RBRACE, "}")}
		for i := 0; i+1 < len(n.C); i += 2 {
			ol.Properties = append(ol.Properties, ast.ObjectProperty{Key: buildExpr(n.C[i]), Value: buildExpr(n.C[i+1])})
		}
		return ol
	}
	panic(fmt.Sprintf("buildExpr: unknown node kind %q", n.K))
}

func buildIdent(n *node) *ast.Identifier {
	return &ast.Identifier{Token: tk(token.IDENT, n.Op), Value: n.Op}
}

func buildBlock(n *node) *ast.BlockStatement {
	b := &ast.BlockStatement{Token: tk(token.LBRACE, "{"), Statements: []ast.Statement{}, RBrace: tk(token.RBRACE, "}")}
	for _, s := range n.C {
		b.Statements = append(b.Statements, buildStmt(s))
	}
	return b
}

func buildStmt(n *node) ast.Statement {
	switch n.K {
	case "let":
		return &ast.LetStatement{Token: tk(token.LET, "let"), Name: buildIdent(n.C[0]), Value: buildExpr(n.C[1])}
	case "ret":
		return &ast.ReturnStatement{Token: tk(token.RETURN, "return"), ReturnValue: buildExpr(n.C[0])}
	case "expr":
		return &ast.ExpressionStatement{Expression: buildExpr(n.C[0])}
	case "fdecl":
		fd := &ast.FunctionDeclaration{Token: tk(token.FUNCTION, "function"), Name: buildIdent(n.C[0]), Parameters: []*ast.Identifier{}, Body: buildBlock(n.C[2])}
		for _, p := range n.C[1].C {
			fd.Parameters = append(fd.Parameters, buildIdent(p))
		}
		return fd
	case "blk":
		return buildBlock(n)
	case "if":
		is := &ast.IfStatement{Token: tk(token.IF, "if"), Condition: buildExpr(n.C[0]), ThenBranch: buildStmt(n.C[1])}
		if n.C[2].K != "nil" {
			is.ElseBranch = buildStmt(n.C[2])
		}
		return is
	case "while":
		return &ast.WhileStatement{Token: tk(token.WHILE, "while"), Condition: buildExpr(n.C[0]), Body: buildStmt(n.C[1])}
	case "for":
		return &ast.ForStatement{Token: tk(token.FOR, "for"), Init: buildExpr(n.C[0]), Condition: buildExpr(n.C[1]), Update: buildExpr(n.C[2]), Body: buildStmt(n.C[3])}
	}
	panic(fmt.Sprintf("buildStmt: unknown node kind %q", n.K))
}

func buildProgram(n *node) *ast.Program {
	p := &ast.Program{Statements: []ast.Statement{}}
	for _, s := range n.C {
		p.Statements = append(p.Statements, buildStmt(s))
	}
	return p
}

type roundTrip struct {
	Cfg  string `json:"cfg"`
	Out  []int  `json:"out"`  // compiled text
	Tree *node  `json:"tree"` // tree of the re-parsed text
	Nerr int    `json:"nerr"`
	Err0 string `json:"err0"`
	Out2 []int  `json:"out2"` // the re-parsed tree compiled again
}

func reparse(src string) (*ast.Program, *node, int, string) {
	p := parser.NewBuilder(lexer.NewBuilder()).Build(src)
	prog, _ := p.ParseProgram()
	e0 := ""
	if len(p.Errors()) > 0 {
		e0 = p.Errors()[0].Message
	}
	return prog, projProgram(prog), len(p.Errors()), e0
}

// printtree: {"id":..,"tree":<prog node>,"cfgs":[names]} -> for every configuration: compile the
// programmatically built tree, parse the output again, compile the re-parsed tree again.
func init() {
	register("printtree", func(raw json.RawMessage) (any, error) {
		var c struct {
			Tree *node    `json:"tree"`
			Cfgs []string `json:"cfgs"`
		}
		if err := json.Unmarshal(raw, &c); err != nil {
			return nil, err
		}
		out := []roundTrip{}
		for _, name := range c.Cfgs {
			prog := buildProgram(c.Tree)
			code, _, perr := safeCompile(name, prog)
			if perr != "" {
				return nil, fmt.Errorf("compile %s: %s", name, perr)
			}
			p2, tr, nerr, e0 := reparse(code)
			code2 := ""
			if nerr == 0 {
				code2, _, _ = safeCompile(name, p2)
			}
			out = append(out, roundTrip{Cfg: name, Out: intsOf(code), Tree: tr, Nerr: nerr, Err0: e0, Out2: intsOf(code2)})
		}
		return out, nil
	})
}
