package main

import (
	"encoding/json"

	"github.com/xjslang/xjs/sourcemap"
)

// smap: replay a history of SourceMapper operations on a real mapper.
// case: {"id":..,"ops":[{"op":"map","sl":..,"sc":..},{"op":"nmap","sl":..,"sc":..,"n":".."},
//        {"op":"col","k":..},{"op":"str","b":[bytes]},{"op":"line"}]}
// obs:  {"snaps":[{"version":3,"mappings":"...","names":[...]}, ...]} (initially and after each op)
type smapOp struct {
	Op string `json:"op"`
	SL int    `json:"sl"`
	SC int    `json:"sc"`
	N  string `json:"n"`
	K  int    `json:"k"`
	B  []int  `json:"b"`
}

func bytesOf(b []int) string {
	bs := make([]byte, len(b))
	for i, v := range b {
		bs[i] = byte(v)
	}
	return string(bs)
}

func intsOf(s string) []int {
	r := make([]int, len(s))
	for i := 0; i < len(s); i++ {
		r[i] = int(s[i])
	}
	return r
}

func applySmapOps(m *sourcemap.SourceMapper, ops []smapOp) {
	for _, o := range ops {
		switch o.Op {
		case "map":
			m.AddMapping(o.SL, o.SC)
		case "nmap":
			m.AddNamedMapping(o.SL, o.SC, o.N)
		case "col":
			m.AdvanceColumn(o.K)
		case "str":
			m.AdvanceString(bytesOf(o.B))
		case "line":
			m.AdvanceLine()
		}
	}
}

func init() {
	register("smap", func(raw json.RawMessage) (any, error) {
		var c struct {
			Ops []smapOp `json:"ops"`
		}
		if err := json.Unmarshal(raw, &c); err != nil {
			return nil, err
		}
		m := sourcemap.New()
		snap := func() map[string]any {
			sm := m.SourceMap()
			names := append([]string{}, sm.Names...)
			return map[string]any{"version": sm.Version, "mappings": sm.Mappings, "names": names}
		}
		// SourceMap() is observable at any time: one snapshot initially and one after every operation
		snaps := []map[string]any{snap()}
		for _, o := range c.Ops {
			applySmapOps(m, []smapOp{o})
			snaps = append(snaps, snap())
		}
		return map[string]any{"snaps": snaps}, nil
	})
}
