package main

import (
	"encoding/json"
	"fmt"
	"strconv"
	"strings"

	"github.com/xjslang/xjs/ast"
	"github.com/xjslang/xjs/lexer"
	"github.com/xjslang/xjs/parser"
	"github.com/xjslang/xjs/token"
)

// sexp renders a projected tree compactly (used for real-vs-real comparisons).
func sexp(n *node) string {
	if n == nil {
		return "?"
	}
	var b strings.Builder
	b.WriteString("(" + n.K)
	if n.Op != "" {
		b.WriteString(":" + n.Op)
	}
	for _, c := range n.C {
		b.WriteString(" " + sexp(c))
	}
	b.WriteString(")")
	return b.String()
}

type histOp struct {
	Op string `json:"op"` // tok | prefix | infix | postfix
	A  string `json:"a"`  // name of the dynamic token or of the built-in token type
	L  int    `json:"l"`
}

// builder: {"id":..,"h":[{op,a,l}..],"probes":[[bytes]..]} -> replays the registration history on ONE
// lexer.Builder / parser.Builder pair.  After every call (and before the first) a parser is built
// for each probe and run.  Replies: token id for "tok", 0 accepted / -1 refused otherwise.
func init() {
	register("builder", func(raw json.RawMessage) (any, error) {
		var c struct {
			H      []histOp `json:"h"`
			Probes [][]int  `json:"probes"`
		}
		if err := json.Unmarshal(raw, &c); err != nil {
			return nil, err
		}
		lb := lexer.NewBuilder()
		names := map[token.Type]string{}
		byName := map[string]token.Type{}
		byChar := map[byte]token.Type{}
		lb.UseTokenInterceptor(func(l *lexer.Lexer, next func() token.Token) token.Token {
			if t, ok := byChar[l.CurrentChar]; ok && l.CurrentChar != 0 {
				tok := l.NewToken(t, string(l.CurrentChar))
				l.ReadChar()
				return tok
			}
			return next()
		})
		pb := parser.NewBuilder(lb)
		tname := func(t token.Type) string {
			if n, ok := names[t]; ok {
				return n
			}
			return tokName(t)
		}
		resolve := func(a string) (token.Type, bool) {
			if t, ok := byName[a]; ok {
				return t, true
			}
			if t, ok := builtinByName[a]; ok {
				return t, true
			}
			return 0, false
		}
		called := map[string]int{} // "kind:token#k" -> times the k-th registration's callback ran
		replies := []int{}
		probeRes := [][]string{}
		var finalToks [][]ptok
		var finalTrees []*node
		var finalNerr []int
		runProbes := func(final bool) {
			row := []string{}
			for _, pr := range c.Probes {
				src := bytesOf(pr)
				p := pb.Build(src)
				prog, _ := p.ParseProgram()
				tr := projProgram(prog)
				row = append(row, sexp(tr)+" errs="+strconv.Itoa(len(p.Errors())))
				if final {
					toks := []ptok{}
					l := lb.Build(src)
					for i := 0; i < 4*len(src)+16; i++ {
						t := l.NextToken()
						toks = append(toks, ptok{Ty: tname(t.Type), Lit: safeStr(t.Literal), NL: t.AfterNewline, OK: true})
						if t.Type == token.EOF {
							break
						}
					}
					finalToks = append(finalToks, toks)
					finalTrees = append(finalTrees, tr)
					finalNerr = append(finalNerr, len(p.Errors()))
				}
			}
			probeRes = append(probeRes, row)
		}
		runProbes(false)
		for k, op := range c.H {
			k := k
			switch op.Op {
			case "tok":
				t := lb.RegisterTokenType(op.A)
				if _, seen := byName[op.A]; !seen {
					byName[op.A] = t
					names[t] = op.A
					if ch, ok := customSpell[op.A]; ok {
						byChar[ch] = t
					}
				}
				replies = append(replies, int(t))
			case "prefix", "infix", "postfix":
				t, ok := resolve(op.A)
				if !ok {
					return nil, fmt.Errorf("history uses unknown token %q", op.A)
				}
				name := op.A
				key := fmt.Sprintf("%s:%s#%d", op.Op, name, k)
				var err error
				switch op.Op {
				case "prefix":
					err = pb.RegisterPrefixOperator(t, func(tok token.Token, right func() ast.Expression) ast.Expression {
						called[key]++
						return &customPrefix{Name: name, Right: right()}
					})
				case "infix":
					level := op.L
					err = pb.RegisterInfixOperator(t, level, func(tok token.Token, left ast.Expression, right func() ast.Expression) ast.Expression {
						called[key]++
						return &customInfix{Name: name, Left: left, Right: right(), Level: level}
					})
				case "postfix":
					err = pb.RegisterPostfixOperator(t, func(tok token.Token, left ast.Expression) ast.Expression {
						called[key]++
						return &customPostfix{Name: name, Left: left}
					})
				}
				if err != nil {
					replies = append(replies, -1)
				} else {
					replies = append(replies, 0)
				}
			default:
				return nil, fmt.Errorf("unknown op %q", op.Op)
			}
			runProbes(k == len(c.H)-1)
		}
		if len(c.H) == 0 {
			finalToks, finalTrees, finalNerr = nil, nil, nil
			probeRes = probeRes[:0]
			runProbes(true)
		}
		builtinIds := []int{}
		for t := range tokenNames {
			builtinIds = append(builtinIds, int(t))
		}
		return map[string]any{"replies": replies, "probes": probeRes, "ftoks": finalToks, "ftrees": finalTrees,
			"fnerr": finalNerr, "called": called, "builtinIds": builtinIds}, nil
	})
}
