// JavaScript engine runner (V8 via node's vm): the judge of C01 / C07.
// stdin: ndjson {id, code, prelude?}; stdout: {id, out: [[typeof, repr]...], end: "normal" | <error name> | "timeout"}.
// `print(v)` records typeof v and a canonical rendering; strings are rendered as arrays of UTF-16
// code units (so that literal VALUES are compared, not their spelling); functions as "function".
'use strict';
const vm = require('vm');
const rl = require('readline').createInterface({ input: process.stdin, crlfDelay: Infinity });

function render(v, depth) {
  const t = typeof v;
  if (t === 'string') { const u = []; for (let i = 0; i < v.length; i++) u.push(v.charCodeAt(i)); return ['string', u]; }
  if (t === 'function') return ['function', ''];
  if (t === 'number') return ['number', Object.is(v, -0) ? '-0' : String(v)];
  if (t === 'undefined' || t === 'boolean' || t === 'bigint' || t === 'symbol') return [t, String(v)];
  if (v === null) return ['null', 'null'];
  if (depth > 3) return ['object', '...'];
  if (Array.isArray(v)) return ['array', v.map(x => render(x, depth + 1))];
  const keys = Object.keys(v);
  return ['object', keys.map(k => [k, render(v[k], depth + 1)])];
}

rl.on('line', (line) => {
  if (!line.trim()) return;
  const c = JSON.parse(line);
  const out = [];
  const print = (...a) => { for (const v of a) out.push(render(v, 0)); };
  const sandbox = { print, console: { log: print } };
  const ctx = vm.createContext(sandbox);
  let end = 'normal';
  try {
    if (c.prelude) vm.runInContext(c.prelude, ctx, { timeout: 1000 });
    vm.runInContext(c.code, ctx, { timeout: 1000 });
  } catch (e) {
    if (e && e.code === 'ERR_SCRIPT_EXECUTION_TIMEOUT') end = 'timeout';
    else end = (e && e.name) ? String(e.name) : 'thrown:' + typeof e;
  }
  process.stdout.write(JSON.stringify({ id: c.id, out, end }) + '\n');
});
