// Reference JavaScript parsers, used as a filter ("is this text still valid JavaScript?") and as
// oracle validators of the TLA+ reference grammar.  Reads ndjson {id, text} on stdin, writes
// {id, v8: accepted?, acorn: accepted?, tree?: normalised ESTree (when "tree": true)}.
// Run with: node --expose-internals engine/ref.js
'use strict';
const vm = require('vm');
let acorn = null;
try { acorn = require('internal/deps/acorn/acorn/dist/acorn'); } catch (e) { acorn = null; }
const rl = require('readline').createInterface({ input: process.stdin, crlfDelay: Infinity });

function norm(n) {
  if (n === null || n === undefined) return { k: 'nil', op: '', c: [] };
  const N = (k, op, c) => ({ k, op, c });
  switch (n.type) {
    case 'Program': return N('prog', '', n.body.map(norm));
    case 'ExpressionStatement': return N('expr', '', [norm(n.expression)]);
    case 'VariableDeclaration': {
      const d = n.declarations[0];
      return N(n.__inFor ? 'lete' : 'let', '', [norm(d.id), norm(d.init)]);
    }
    case 'ReturnStatement': return N('ret', '', [norm(n.argument)]);
    case 'BlockStatement': return N('blk', '', n.body.map(norm));
    case 'FunctionDeclaration': return N('fdecl', '', [norm(n.id), N('params', '', n.params.map(norm)), norm(n.body)]);
    case 'FunctionExpression': return N('fn', '', [norm(n.id), N('params', '', n.params.map(norm)), norm(n.body)]);
    case 'IfStatement': return N('if', '', [norm(n.test), norm(n.consequent), norm(n.alternate)]);
    case 'WhileStatement': return N('while', '', [norm(n.test), norm(n.body)]);
    case 'ForStatement': {
      if (n.init && n.init.type === 'VariableDeclaration') n.init.__inFor = true;
      return N('for', '', [norm(n.init), norm(n.test), norm(n.update), norm(n.body)]);
    }
    case 'Identifier': return N('id', n.name, []);
    case 'Literal':
      if (n.value === null && n.raw === 'null') return N('null', '', []);
      if (typeof n.value === 'boolean') return N('bool', String(n.value), []);
      if (typeof n.value === 'string') return N('str', n.value, []);
      if (typeof n.value === 'number') return N(/[.eE]/.test(n.raw) && !/^0[xX]/.test(n.raw) ? 'flt' : 'num', n.raw, []);
      return N('lit?', n.raw, []);
    case 'TemplateLiteral': return N('raw', n.quasis.map(q => q.value.raw).join('${}'), []);
    case 'BinaryExpression': case 'LogicalExpression': return N('bin', n.operator, [norm(n.left), norm(n.right)]);
    case 'AssignmentExpression': return N(n.operator === '=' ? 'asg' : 'casg', n.operator, [norm(n.left), norm(n.right)]);
    case 'UnaryExpression': return N('un', n.operator, [norm(n.argument)]);
    case 'UpdateExpression': return N(n.prefix ? 'un' : 'post', n.operator, [norm(n.argument)]);
    case 'CallExpression': return N('call', '', [norm(n.callee)].concat(n.arguments.map(norm)));
    case 'MemberExpression': {
      // xjs represents the property names true / false / null by their literal nodes
      let prop = norm(n.property);
      if (!n.computed && n.property.type === 'Identifier') {
        if (n.property.name === 'true' || n.property.name === 'false') prop = N('bool', n.property.name, []);
        if (n.property.name === 'null') prop = N('null', '', []);
      }
      return N(n.computed ? 'idx' : 'mem', '', [norm(n.object), prop]);
    }
    case 'ArrayExpression': return N('arr', '', n.elements.map(norm));
    case 'ObjectExpression': {
      const c = [];
      for (const p of n.properties) { c.push(norm(p.key)); c.push(norm(p.value)); }
      return N('obj', '', c);
    }
    case 'ParenthesizedExpression': return norm(n.expression);
    case 'EmptyStatement': return N('empty', '', []);
    default: return N('?' + n.type, '', []);
  }
}

rl.on('line', (line) => {
  if (!line.trim()) return;
  const c = JSON.parse(line);
  const out = { id: c.id };
  try { judge(c, out); } catch (e) { out.skip = String(e && e.message).slice(0, 80); }   // e.g. stack exhaustion on a very deep text
  let s;
  try { s = JSON.stringify(out); } catch (e) { s = JSON.stringify({ id: c.id, skip: 'unserialisable: ' + String(e && e.message).slice(0, 60) }); }
  process.stdout.write(s + '\n');
});

function judge(c, out) {
  try { new vm.Script(c.text); out.v8 = true; } catch (e) {
    if (e instanceof RangeError) throw e;
    out.v8 = !(e instanceof SyntaxError); if (!out.v8) out.v8err = String(e.message).slice(0, 80);
  }
  if (acorn) {
    try {
      const ast = acorn.parse(c.text, { ecmaVersion: 2020, sourceType: 'script', allowReturnOutsideFunction: !!c.allowReturn });
      out.acorn = true;
      if (c.tree) out.tree = norm(ast);
    } catch (e) { if (e instanceof RangeError) throw e; out.acorn = false; out.acornerr = String(e.message).slice(0, 80); }
  } else { out.acorn = null; }
}
