------------------------------ MODULE MC_C03 ------------------------------
(* Programmatic trees: every parent/child operator pair and side up to      *)
(* Depth, with operands of any precedence, in statement contexts.  For each *)
(* tree and printer configuration the printer model (XjsPrinter + XjsWriter)*)
(* produces the text, the lexer model (XjsLexer) and the parser model       *)
(* (XjsParser) read it back, and the result must be the tree it was printed *)
(* from, and print to the same text again (design level).  Each tree is     *)
(* exported with the model's texts for replay on the real compiler/parser.  *)
EXTENDS XjsPrinter, XjsLexer, XjsPrograms, Json

CONSTANTS Depth, BinDepth, Contexts, DeepContexts, Export

VARIABLES t, d
vars == <<t, d>>

P == Id("p")
Tgt == {B, Node("mem", "", <<B, P>>)}
CallLevel(x) == PPrec(x) >= PP_CALL
\* parents around x, operands of ANY precedence
Wraps3(x) ==
  {Bin(op, x, B) : op \in BinOps} \cup {Bin(op, B, x) : op \in BinOps}
  \cup {Node("un", op, <<x>>) : op \in {"!", "-"}}
  \cup (IF IsTarget(x)
        THEN {Node("un", "++", <<x>>), Node("un", "--", <<x>>), Node("post", "++", <<x>>), Node("post", "--", <<x>>),
              Node("asg", "=", <<x, B>>), Node("casg", "+=", <<x, B>>)}
        ELSE {})
  \cup {Node("asg", "=", <<g, x>>) : g \in Tgt} \cup {Node("casg", "-=", <<B, x>>)}
  \* callee / object of ANY precedence: (a + b)(c), (-a).p, (a = b)[c] are the JavaScript texts of these trees
  \cup {Node("mem", "", <<x, P>>)}
  \cup {Node("call", "", <<x>>), Node("call", "", <<x, B>>), Node("idx", "", <<x, B>>)}
  \cup {Node("call", "", <<B, x>>), Node("call", "", <<B, B, x>>), Node("idx", "", <<B, x>>),
        Node("arr", "", <<x>>), Node("arr", "", <<B, x>>), Node("obj", "", <<Id("k"), x>>),
        Fn(Nil, <<>>, <<Ret(x)>>), Grp(x)}

\* binary operators only, one or two per precedence level, to depth BinDepth: every triple / quadruple of
\* nested operator levels and sides (parenthesisation decisions that depend on a grandparent show at depth 3)
RepOps == {"||", "&&", "==", "<", "+", "-", "*", "%"}
RECURSIVE BinOnly(_)
BinOnly(x) == x = A \/ x = B \/ (x.k = "bin" /\ x.op \in RepOps /\ BinOnly(x.c[1]) /\ BinOnly(x.c[2]))
BinWraps(x) == {Bin(op, x, B) : op \in RepOps} \cup {Bin(op, B, x) : op \in RepOps}

Atoms3 == {A, Num("1"), Node("str", "s", <<>>), Fn(Nil, <<>>, <<>>), Node("obj", "", <<>>)}
Init == t \in Atoms3 /\ d = 0
Next == \/ d < Depth /\ t' \in Wraps3(t) /\ d' = d + 1
        \/ d >= Depth /\ d < BinDepth /\ BinOnly(t) /\ t' \in BinWraps(t) /\ d' = d + 1
Spec == Init /\ [][Next]_vars

Ctx3(c, e) ==
  CASE c = 1 -> Prog(<<E(e)>>)
    [] c = 2 -> Prog(<<Let("x", e)>>)
    [] c = 3 -> Prog(<<E(A), E(e), E(B)>>)
    [] c = 4 -> Prog(<<Node("fdecl", "", <<Id("f"), PList(<<Id("p")>>), Blk(<<Ret(e)>>)>>)>>)
    [] c = 5 -> Prog(<<Node("if", "", <<e, Blk(<<E(A)>>), E(e)>>)>>)
    [] c = 6 -> Prog(<<Node("for", "", <<Node("lete", "", <<Id("i"), e>>), e, e, E(A)>>)>>)
    [] c = 7 -> Prog(<<Node("fdecl", "", <<Id("f"), PList(<<>>), Blk(<<E(e), E(A)>>)>>)>>)       \* a statement inside a block
    [] c = 8 -> Prog(<<Let("x", e), E(Node("call", "", <<Grp(B)>>))>>)                            \* followed by a `(` statement
    [] c = 9 -> Prog(<<E(e), E(Node("un", "-", <<A>>)), If(A, E(e), E(B))>>)                      \* followed by `-`; before else

Cfgs == <<Compact, Pretty(<<32, 32>>, TRUE), Pretty(<<9>>, FALSE)>>
CfgNames == <<"compact", "pretty:default:semi", "pretty:tab:nosemi">>

\* lexer tokens -> parser tokens (literals back to vocabulary strings)
Unb(bytes) == IF bytes = <<>> THEN "" ELSE IF \E s \in DOMAIN Vocab : Vocab[s] = bytes
              THEN CHOOSE s \in DOMAIN Vocab : Vocab[s] = bytes ELSE "?"
PTok(k) == [ty |-> k.ty, lit |-> Unb(k.lit), nl |-> k.nl, ok |-> TRUE]
ReadBack(text) ==
  LET lt == LexAll(text, 0)
      r  == ParseProgram(DefaultP([j \in 1..Len(lt) |-> PTok(lt[j])]))
  IN [tree |-> r.tree, nerr |-> Len(r.errs)]

Check(p) ==
  LET want == Strip(p)
      outs == [c \in 1..Len(Cfgs) |-> PrintTree(p, Cfgs[c])]
      bad  == {c \in 1..Len(Cfgs) :
                 LET rb == ReadBack(outs[c])
                 IN ~(rb.nerr = 0 /\ Strip(rb.tree) = want /\ PrintTree(rb.tree, Cfgs[c]) = outs[c])}
  IN /\ (bad = {} \/ PrintT(<<"MODELFAIL", ToJson([tree |-> p, cfgs |-> bad, outs |-> outs])>>))
     /\ (Export => PrintT(ToJson([tree |-> p, outs |-> [c \in 1..Len(Cfgs) |-> [cfg |-> CfgNames[c], text |-> outs[c]]]])))

Inv == \A c \in (IF d < Depth \/ Depth < 2 THEN Contexts ELSE DeepContexts) : Check(Ctx3(c, t))
=============================================================================
