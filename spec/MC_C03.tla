------------------------------ MODULE MC_C03 ------------------------------
(* Programmatic trees: every parent/child operator pair and side up to      *)
(* Depth, with operands of any precedence, in statement contexts.  For each *)
(* tree and printer configuration the printer model (XjsPrinter + XjsWriter)*)
(* produces the text, the lexer model (XjsLexer) and the parser model       *)
(* (XjsParser) read it back, and the result must be the tree it was printed *)
(* from, and print to the same text again (design level).  Each tree is     *)
(* exported with the model's texts for replay on the real compiler/parser.  *)
EXTENDS XjsPrinter, XjsLexer, XjsPrograms, Json

CONSTANTS Depth, BinDepth, Contexts, DeepContexts, Export, StmtDepth

VARIABLES t, d
vars == <<t, d>>
\* t is an expression (d counts expression wraps) or, second enumerator, a STATEMENT (d counts
\* statement wraps): programmatic statement trees - every parent/child pair of statement kinds and
\* position up to StmtDepth, with brace-less bodies and branches

P == Id("p")
Tgt == {B, Node("mem", "", <<B, P>>)}
CallLevel(x) == PPrec(x) >= PP_CALL
\* parents around x, operands of ANY precedence
Wraps3(x) ==
  {Bin(op, x, B) : op \in BinOps} \cup {Bin(op, B, x) : op \in BinOps}
  \cup {Node("un", op, <<x>>) : op \in {"!", "-"}}
  \cup (IF IsTarget(x)
        THEN {Node("un", "++", <<x>>), Node("un", "--", <<x>>), Node("post", "++", <<x>>), Node("post", "--", <<x>>),
              Node("asg", "=", <<x, B>>), Node("casg", "+=", <<x, B>>)}
        ELSE {})
  \cup {Node("asg", "=", <<g, x>>) : g \in Tgt} \cup {Node("casg", "-=", <<B, x>>)}
  \* callee / object of ANY precedence: (a + b)(c), (-a).p, (a = b)[c] are the JavaScript texts of these trees
  \cup {Node("mem", "", <<x, P>>)}
  \cup {Node("call", "", <<x>>), Node("call", "", <<x, B>>), Node("idx", "", <<x, B>>)}
  \cup {Node("call", "", <<B, x>>), Node("call", "", <<B, B, x>>), Node("idx", "", <<B, x>>),
        Node("arr", "", <<x>>), Node("arr", "", <<B, x>>), Node("obj", "", <<Id("k"), x>>),
        Fn(Nil, <<>>, <<Ret(x)>>), Grp(x)}

\* binary operators only, one or two per precedence level, to depth BinDepth: every triple / quadruple of
\* nested operator levels and sides (parenthesisation decisions that depend on a grandparent show at depth 3)
RepOps == {"||", "&&", "==", "<", "+", "-", "*", "%"}
RECURSIVE BinOnly(_)
BinOnly(x) == x = A \/ x = B \/ (x.k = "bin" /\ x.op \in RepOps /\ BinOnly(x.c[1]) /\ BinOnly(x.c[2]))
BinWraps(x) == {Bin(op, x, B) : op \in RepOps} \cup {Bin(op, B, x) : op \in RepOps}

IsStmt(x) == IsStmtKind(x.k)
BodyOK(x) == x.k \notin {"let", "fdecl"}       \* a declaration is not a statement body in the subset
StmtAtoms == {E(A), E(Node("un", "-", <<A>>)), E(Node("call", "", <<Grp(B)>>)), Let("x", Num("1")), Ret(Nil), Ret(A),
              If(A, E(B), Nil), Blk(<<>>), Node("fdecl", "", <<Id("g"), PList(<<>>), Blk(<<>>)>>)}
StmtWraps(x) ==
  (IF BodyOK(x)
   THEN {If(A, x, Nil), If(A, x, E(Id("d"))), If(A, E(Id("c")), x), If(A, x, x), If(A, x, Blk(<<E(Id("d"))>>)),
         Node("while", "", <<A, x>>), Node("for", "", <<Nil, Nil, Nil, x>>),
         Node("for", "", <<Node("lete", "", <<Id("i"), Num("0")>>), Bin("<", Id("i"), Num("2")), Node("post", "++", <<Id("i")>>), x>>)}
   ELSE {})
  \cup {Blk(<<x>>), Blk(<<E(A), x>>), Blk(<<x, E(Node("un", "-", <<B>>))>>),
        Node("fdecl", "", <<Id("h"), PList(<<Id("p")>>), Blk(<<x>>)>>),
        E(Node("call", "", <<Id("f"), Fn(Nil, <<>>, <<x>>)>>)), Let("k", Fn(Nil, <<>>, <<x, E(A)>>))}
\* a statement tree as a program: function body when it returns, else top level (and after `a`)
RECURSIVE ReturnsOutside(_)
ReturnsOutside(s) ==
  \/ s.k = "ret"
  \/ s.k \in {"if", "while", "for", "blk"} /\ \E j \in 1..Len(s.c) : ~IsNilNode(s.c[j]) /\ IsStmtKind(s.c[j].k) /\ ReturnsOutside(s.c[j])
StmtProgs(x) == IF ReturnsOutside(x) THEN {Prog(<<Node("fdecl", "", <<Id("w"), PList(<<>>), Blk(<<x>>)>>)>>)}
                ELSE {Prog(<<x>>), Prog(<<E(A), x, E(B)>>)}

Atoms3 == {A, Num("1"), Node("str", "s", <<>>), Fn(Nil, <<>>, <<>>), Node("obj", "", <<>>)}
Init == (t \in Atoms3 /\ d = 0) \/ (StmtDepth > 0 /\ t \in StmtAtoms /\ d = 0)
Next == \/ ~IsStmt(t) /\ d < Depth /\ t' \in Wraps3(t) /\ d' = d + 1
        \/ IsStmt(t) /\ d < StmtDepth /\ t' \in StmtWraps(t) /\ d' = d + 1
        \/ ~IsStmt(t) /\ d >= Depth /\ d < BinDepth /\ BinOnly(t) /\ t' \in BinWraps(t) /\ d' = d + 1
Spec == Init /\ [][Next]_vars

Ctx3(c, e) ==
  CASE c = 1 -> Prog(<<E(e)>>)
    [] c = 2 -> Prog(<<Let("x", e)>>)
    [] c = 3 -> Prog(<<E(A), E(e), E(B)>>)
    [] c = 4 -> Prog(<<Node("fdecl", "", <<Id("f"), PList(<<Id("p")>>), Blk(<<Ret(e)>>)>>)>>)
    [] c = 5 -> Prog(<<Node("if", "", <<e, Blk(<<E(A)>>), E(e)>>)>>)
    [] c = 6 -> Prog(<<Node("for", "", <<Node("lete", "", <<Id("i"), e>>), e, e, E(A)>>)>>)
    [] c = 7 -> Prog(<<Node("fdecl", "", <<Id("f"), PList(<<>>), Blk(<<E(e), E(A)>>)>>)>>)       \* a statement inside a block
    [] c = 8 -> Prog(<<Let("x", e), E(Node("call", "", <<Grp(B)>>))>>)                            \* followed by a `(` statement
    [] c = 9 -> Prog(<<E(e), E(Node("un", "-", <<A>>)), If(A, E(e), E(B))>>)                      \* followed by `-`; before else

Cfgs == <<Compact, Pretty(<<32, 32>>, TRUE), Pretty(<<9>>, FALSE)>>
CfgNames == <<"compact", "pretty:default:semi", "pretty:tab:nosemi">>

\* lexer tokens -> parser tokens (literals back to vocabulary strings)
Unb(bytes) == IF bytes = <<>> THEN "" ELSE IF \E s \in DOMAIN Vocab : Vocab[s] = bytes
              THEN CHOOSE s \in DOMAIN Vocab : Vocab[s] = bytes ELSE "?"
PTok(k) == [ty |-> k.ty, lit |-> Unb(k.lit), nl |-> k.nl, ok |-> TRUE]
ReadBack(text) ==
  LET lt == LexAll(text, 0)
      r  == ParseProgram(DefaultP([j \in 1..Len(lt) |-> PTok(lt[j])]))
  IN [tree |-> r.tree, nerr |-> Len(r.errs)]

Check(p) ==
  LET want == Strip(ProtectElse(p))
      outs == [c \in 1..Len(Cfgs) |-> PrintTree(p, Cfgs[c])]
      bad  == {c \in 1..Len(Cfgs) :
                 LET rb == ReadBack(outs[c])
                 IN ~(rb.nerr = 0 /\ Strip(rb.tree) = want /\ PrintTree(rb.tree, Cfgs[c]) = outs[c])}
  IN /\ (bad = {} \/ PrintT(<<"MODELFAIL", ToJson([tree |-> p, cfgs |-> bad, outs |-> outs])>>))
     /\ (Export => PrintT(ToJson([tree |-> p, outs |-> [c \in 1..Len(Cfgs) |-> [cfg |-> CfgNames[c], text |-> outs[c]]]])))

Inv == IF IsStmt(t) THEN \A p \in StmtProgs(t) : Check(p)
       ELSE \A c \in (IF d < Depth \/ Depth < 2 THEN Contexts ELSE DeepContexts) : Check(Ctx3(c, t))
=============================================================================
