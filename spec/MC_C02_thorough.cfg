SPECIFICATION Spec
CONSTANTS
  Depth = 2
  MaxStmts = 2
  Contexts = {1, 2, 3, 4, 5, 6, 7, 8}
  DeepContexts = {1, 2, 3, 4}
  DeepRed = {FALSE, TRUE}
  SingleBreaksUpTo = 1
  Export = TRUE
INVARIANT Inv
CHECK_DEADLOCK FALSE
