SPECIFICATION Spec
CONSTANTS
  Depth = 3
  MaxStmts = 3
  Contexts = {1, 2, 3, 4, 5, 6, 7, 8}
  DeepContexts = {3}
  DeepRed = {FALSE}
  SingleBreaksUpTo = 1
  Export = TRUE
INVARIANT Inv
CHECK_DEADLOCK FALSE
