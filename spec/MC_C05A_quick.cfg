SPECIFICATION Spec
CONSTANTS
  MaxOps = 2
  Levels = {1, 2, 3, 4, 5, 6, 7, 8, 9, 10, 11, 12, 13}
  Export = TRUE
INVARIANT Inv
CHECK_DEADLOCK FALSE
