------------------------------ MODULE MC_C05A ------------------------------
(* Operator strings mixing built-in operators with a registered infix       *)
(* operator DYN0 of level L (and a second one, DYN3, of level L2), a         *)
(* registered prefix operator DYN1 and a registered postfix operator DYN2:   *)
(* every string with <= MaxOps operators that the operator grammar admits.   *)
(* The parser model, configured with these operators, must group each        *)
(* string by level (WFX) and yield the tokens (design level); every string   *)
(* is exported for replay on a real parser built with the same plugins.      *)
EXTENDS XjsGrammar, Json

CONSTANTS MaxOps, Levels, Export

VARIABLES L, L2, toks, expectOperand, nops
vars == <<L, L2, toks, expectOperand, nops>>

K(ty, lit) == [ty |-> ty, lit |-> lit, nl |-> FALSE, ok |-> TRUE]
InfixToks == {K("DYN0", "DYN0"), K("DYN3", "DYN3"), K("PLUS", "+"), K("MINUS", "-"), K("MULTIPLY", "*"), K("DIVIDE", "/"),
              K("MODULO", "%"), K("EQ", "=="), K("NOT_EQ", "!="), K("LT", "<"), K("GT", ">"), K("LTE", "<="),
              K("GTE", ">="), K("AND", "&&"), K("OR", "||"), K("DOT", ".")}
AssignToks == {K("ASSIGN", "="), K("PLUS_ASSIGN", "+="), K("MINUS_ASSIGN", "-=")}
PrefixToks == {K("DYN1", "DYN1"), K("MINUS", "-"), K("NOT", "!")}
AtomNames == <<"a", "b", "c", "d", "e">>
Atom == K("IDENT", AtomNames[1 + Len(SelectSeq(toks, LAMBDA x : x.ty = "IDENT"))])

Init == /\ L \in Levels /\ L2 \in {L, IF L > 2 THEN L - 1 ELSE L + 1}
        /\ toks = <<>> /\ expectOperand = TRUE /\ nops = 0

Last == toks[Len(toks)]
Next ==
  \/ /\ expectOperand /\ nops < MaxOps /\ \E p \in PrefixToks :
          toks' = Append(toks, p) /\ nops' = nops + 1 /\ UNCHANGED <<L, L2, expectOperand>>
  \/ /\ expectOperand /\ toks' = Append(toks, Atom) /\ expectOperand' = FALSE /\ UNCHANGED <<L, L2, nops>>
  \/ /\ ~expectOperand /\ nops < MaxOps /\ Len(toks) > 0
     /\ \/ (\E i \in InfixToks : (i.ty = "DOT" => Last.ty # "INCREMENT") /\ toks' = Append(toks, i) /\ expectOperand' = TRUE)
        \* assignment: only directly after a single leading identifier (a valid target)
        \/ (Len(toks) = 1 /\ \E i \in AssignToks : toks' = Append(toks, i) /\ expectOperand' = TRUE)
        \* postfix: registered postfix, call, index; built-in ++ only right after an identifier
        \/ (toks' = Append(toks, K("DYN2", "DYN2")) /\ UNCHANGED expectOperand)
        \* DYN1 is registered as prefix AND as postfix operator (like `!` with a factorial plugin)
        \/ (toks' = Append(toks, K("DYN1", "DYN1")) /\ UNCHANGED expectOperand)
        \/ (Last.ty # "INCREMENT" /\ toks' = toks \o <<K("LPAREN", ""), K("RPAREN", "")>> /\ UNCHANGED expectOperand)
        \/ (Last.ty # "INCREMENT" /\ toks' = toks \o <<K("LBRACKET", ""), K("IDENT", "i"), K("RBRACKET", "")>> /\ UNCHANGED expectOperand)
        \/ (Last.ty = "IDENT" /\ toks' = Append(toks, K("INCREMENT", "++")) /\ UNCHANGED expectOperand)
     /\ nops' = nops + 1 /\ UNCHANGED <<L, L2>>
Spec == Init /\ [][Next]_vars

Finished == ~expectOperand /\ nops > 0
HasTy(ty) == \E j \in 1..Len(toks) : toks[j].ty = ty
\* strings in which some custom operator occurs; the second custom level only matters with DYN3
Relevant == /\ Finished
            /\ (HasTy("DYN0") \/ HasTy("DYN1") \/ HasTy("DYN2") \/ HasTy("DYN3"))
            /\ (~HasTy("DYN3") => L2 = (IF L > 2 THEN L - 1 ELSE L + 1))
            /\ (~HasTy("DYN0") /\ ~HasTy("DYN3") => L = 7)
            \* a left-associative operator of the assignment level next to `=`: no defined answer
            /\ ~((HasTy("ASSIGN") \/ HasTy("PLUS_ASSIGN") \/ HasTy("MINUS_ASSIGN")) /\ ((HasTy("DYN0") /\ L = 2) \/ (HasTy("DYN3") /\ L2 = 2)))
            \* the property after a dot must be a name
            /\ \A j \in 1..(Len(toks) - 1) : toks[j].ty = "DOT" => toks[j + 1].ty = "IDENT"

CL == ("DYN0" :> L) @@ ("DYN3" :> L2)
Lowest == (HasTy("DYN0") /\ L = 1) \/ (HasTy("DYN3") /\ L2 = 1)
\* layout variant: a line break in front of every registered INFIX operator (an operator at the
\* start of a line continues the expression - only ++ / -- are restricted productions)
\* ... and in front of every registered POSTFIX operator (a call-level suffix continues across a line
\* break like `(`): a token in postfix position is one that follows an operand
PostfixPos(j) == j > 1 /\ toks[j].ty \in {"DYN1", "DYN2"} /\ toks[j - 1].ty \in {"IDENT", "RPAREN", "RBRACKET", "DYN2", "INCREMENT"}
                 /\ (toks[j].ty = "DYN1" => (toks[j - 1].ty # "DYN1"))
Laid(brk) == [j \in 1..Len(toks) |-> IF brk /\ (toks[j].ty \in {"DYN0", "DYN3"} \/ PostfixPos(j)) THEN [toks[j] EXCEPT !.nl = TRUE] ELSE toks[j]]
AllOf(brk) == Append(Laid(brk), [ty |-> "EOF", lit |-> "", nl |-> FALSE, ok |-> TRUE])
PO(brk) == [DefaultP(AllOf(brk)) EXCEPT !.cprefix = {"DYN1"}, !.cinfix = CL, !.cpostfix = {"DYN2", "DYN1"}]

Inv == Relevant => \A brk \in (IF HasTy("DYN0") \/ HasTy("DYN3") \/ (\E j \in 1..Len(toks) : PostfixPos(j)) THEN BOOLEAN ELSE {FALSE}) :
         LET All == AllOf(brk)
             P   == PO(brk)
             r   == ParseProgram(P)
             rec == [toks |-> [j \in 1..Len(All) |-> [ty |-> All[j].ty, lit |-> All[j].lit, nl |-> All[j].nl, nonl |-> FALSE, opt |-> FALSE]],
                     res |-> [tree |-> r.tree, nerr |-> Len(r.errs), err |-> Len(r.errs) > 0], cl |-> CL, lowest |-> Lowest]
             f   == C05A_Failures(rec)
         IN /\ (f = {} \/ PrintT(<<"MODELFAIL", f, ToJson([toks |-> toks, L |-> L, L2 |-> L2, tree |-> r.tree])>>))
            /\ (Export => PrintT(ToJson([toks |-> [j \in 1..Len(All) |-> [ty |-> All[j].ty, lit |-> All[j].lit, nl |-> All[j].nl]],
                                          L |-> L, L2 |-> L2, lowest |-> Lowest, want |-> r.tree])))
=============================================================================
