SPECIFICATION Spec
CONSTANTS
  MaxLen = 3
  Kinds <- QKinds
  Export = TRUE
INVARIANT Inv
CHECK_DEADLOCK FALSE
