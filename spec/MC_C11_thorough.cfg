SPECIFICATION Spec
CONSTANTS
  MaxLen = 4
  Kinds <- QKinds
  Export = TRUE
INVARIANT Inv
CHECK_DEADLOCK FALSE
