----------------------------- MODULE XjsGrammar -----------------------------
(***************************************************************************)
(* Reference notions about trees of the subset, independent of how xjs     *)
(* computes them: completeness of a tree (mandatory children), absence of  *)
(* nil entries in statement lists, the ECMAScript operator levels and the  *)
(* well-formedness of an expression tree with respect to them.             *)
(***************************************************************************)
EXTENDS XjsParser

IsNilNode(n) == n.k \in {"nil", "tnil"}

\* positions (1-based child indices) that may legitimately be absent
OptionalChild(n, j) ==
  \/ n.k = "let"  /\ j = 2            \* no initialiser
  \/ n.k = "lete" /\ j = 2
  \/ n.k = "ret"  /\ j = 1
  \/ n.k = "if"   /\ j = 3
  \/ n.k = "for"  /\ j \in {1, 2, 3}
  \/ n.k = "fn"   /\ j = 1            \* anonymous function expression

RECURSIVE Complete(_)
\* every mandatory child is present, recursively
Complete(n) ==
  \A j \in 1..Len(n.c) :
     IF IsNilNode(n.c[j]) THEN OptionalChild(n, j) /\ n.c[j].k = "nil"
     ELSE Complete(n.c[j])

RECURSIVE NoNilInLists(_)
\* statement lists (program, blocks) never contain nil entries - typed or untyped
NoNilInLists(n) ==
  /\ (n.k \in {"prog", "blk"} => \A j \in 1..Len(n.c) : ~IsNilNode(n.c[j]))
  /\ \A j \in 1..Len(n.c) : NoNilInLists(n.c[j])

---------------------------------------------------------------------------
(* P_C11 on an observed result res = [tree, err, errors, compile] for the  *)
(* token list toks (records with sl, sc, el, ec) of the same input         *)

C11_ErrIff(res) == res.err <=> (Len(res.errors) > 0)
C11_NoNil(res) == NoNilInLists(res.tree)
C11_ErrRange(toks, res) ==
  \A k \in 1..Len(res.errors) :
    LET e == res.errors[k] IN
    \E j \in 1..Len(toks) : toks[j].sl = e.sl /\ toks[j].sc = e.sc /\ toks[j].el = e.el /\ toks[j].ec = e.ec
C11_Complete(res) ==
  (Len(res.errors) = 0 /\ ~res.err) =>
     /\ Complete(res.tree)
     /\ \A cfgname \in DOMAIN res.compile : res.compile[cfgname] = "ok"

C11_Failures(toks, res) ==
  (IF C11_ErrIff(res) THEN {} ELSE {"err_iff_errors"})
  \cup (IF C11_NoNil(res) THEN {} ELSE {"nil_in_statement_list"})
  \cup (IF C11_ErrRange(toks, res) THEN {} ELSE {"error_range_not_a_token"})
  \cup (IF C11_Complete(res) THEN {} ELSE {"incomplete_or_compile_panic"})

=============================================================================
