----------------------------- MODULE XjsGrammar -----------------------------
(***************************************************************************)
(* Reference notions about trees of the subset, independent of how xjs     *)
(* computes them: completeness of a tree (mandatory children), absence of  *)
(* nil entries in statement lists, the ECMAScript operator levels and the  *)
(* well-formedness of an expression tree with respect to them.             *)
(***************************************************************************)
EXTENDS XjsParser

IsNilNode(n) == n.k \in {"nil", "tnil"}

\* Trees nested deeper than the JSON reader of TLC allows (255 levels) arrive flattened: a record
\* [flat |-> <<<<k, op, arity>>, ...>>] in prefix order.  Unflat rebuilds the tree.
RECURSIVE UnflatAt(_, _), UnflatKids(_, _, _, _)
UnflatKids(f, i, n, acc) ==
  IF n = 0 THEN [cs |-> acc, i |-> i]
  ELSE LET x == UnflatAt(f, i) IN UnflatKids(f, x.i, n - 1, Append(acc, x.n))
UnflatAt(f, i) ==
  LET ks == UnflatKids(f, i + 1, f[i][3], <<>>)
  IN [n |-> Node(f[i][1], f[i][2], ks.cs), i |-> ks.i]
Unflat(x) == IF "flat" \in DOMAIN x THEN UnflatAt(x.flat, 1).n ELSE x

\* tree constructors
Id(x) == Node("id", x, <<>>)
Num(x) == Node("num", x, <<>>)
A == Id("a")
B == Id("b")
PList(ps) == Node("params", "", ps)
Blk(s) == Node("blk", "", s)
E(e) == Node("expr", "", <<e>>)
Ret(e) == Node("ret", "", <<e>>)
Let(x, e) == Node("let", "", <<Id(x), e>>)
Fn(name, ps, body) == Node("fn", "", <<name, PList(ps), Blk(body)>>)
Bin(op, l, r) == Node("bin", op, <<l, r>>)
Prog(s) == Node("prog", "", s)
Grp(e) == Node("grp", "", <<e>>)
If(c, th, el) == Node("if", "", <<c, th, el>>)

\* The dangling else.  ECMAScript gives an `else` to the nearest `if` that has none, so the TEXT of a
\* tree If(c, s, e) whose consequence s ends in an else-less `if` (directly, through the else branch
\* of an `if`, or through the body of a while / for) needs a brace pair around s: that block is to
\* statements what an explicit grouping node is to expressions - the only JavaScript spelling of
\* the tree.  ProtectElse(t) is t with exactly those blocks made explicit (a tree that came out of a
\* parser has them already and is left as it is).
RECURSIVE EndsInOpenIf(_)
EndsInOpenIf(s) ==
  CASE s.k = "if" -> IF IsNilNode(s.c[3]) THEN TRUE ELSE EndsInOpenIf(s.c[3])
    [] s.k = "while" -> ~IsNilNode(s.c[2]) /\ EndsInOpenIf(s.c[2])
    [] s.k = "for" -> ~IsNilNode(s.c[4]) /\ EndsInOpenIf(s.c[4])
    [] OTHER -> FALSE
RECURSIVE ProtectElse(_)
ProtectElse(n) ==
  LET kids == [j \in 1..Len(n.c) |-> ProtectElse(n.c[j])]
  IN IF n.k = "if" /\ ~IsNilNode(n.c[3]) /\ ~IsNilNode(n.c[2]) /\ EndsInOpenIf(n.c[2])
     THEN Node("if", n.op, <<kids[1], Blk(<<kids[2]>>), kids[3]>>)
     ELSE Node(n.k, n.op, kids)

\* positions (1-based child indices) that may legitimately be absent
OptionalChild(n, j) ==
  \/ n.k = "let"  /\ j = 2            \* no initialiser
  \/ n.k = "lete" /\ j = 2
  \/ n.k = "ret"  /\ j = 1
  \/ n.k = "if"   /\ j = 3
  \/ n.k = "for"  /\ j \in {1, 2, 3}
  \/ n.k = "fn"   /\ j = 1            \* anonymous function expression

RECURSIVE Complete(_)
\* every mandatory child is present, recursively
Complete(n) ==
  \A j \in 1..Len(n.c) :
     IF IsNilNode(n.c[j]) THEN OptionalChild(n, j) /\ n.c[j].k = "nil"
     ELSE Complete(n.c[j])

RECURSIVE NoNilInLists(_)
\* statement lists (program, blocks) never contain nil entries - typed or untyped
NoNilInLists(n) ==
  /\ (n.k \in {"prog", "blk"} => \A j \in 1..Len(n.c) : ~IsNilNode(n.c[j]))
  /\ \A j \in 1..Len(n.c) : NoNilInLists(n.c[j])

---------------------------------------------------------------------------
(* P_C11 on an observed result res = [tree, err, errors, compile] for the  *)
(* token list toks (records with sl, sc, el, ec) of the same input         *)

C11_ErrIff(res) == res.err <=> (Len(res.errors) > 0)
C11_NoNil(res) == NoNilInLists(res.tree)
C11_ErrRange(toks, res) ==
  \A k \in 1..Len(res.errors) :
    LET e == res.errors[k] IN
    \E j \in 1..Len(toks) : toks[j].sl = e.sl /\ toks[j].sc = e.sc /\ toks[j].el = e.el /\ toks[j].ec = e.ec
C11_Complete(res) ==
  (Len(res.errors) = 0 /\ ~res.err) =>
     /\ Complete(res.tree)
     /\ \A cfgname \in DOMAIN res.compile : res.compile[cfgname] = "ok"

C11_Failures(toks, res) ==
  (IF C11_ErrIff(res) THEN {} ELSE {"err_iff_errors"})
  \cup (IF C11_NoNil(res) THEN {} ELSE {"nil_in_statement_list"})
  \cup (IF C11_ErrRange(toks, res) THEN {} ELSE {"error_range_not_a_token"})
  \cup (IF C11_Complete(res) THEN {} ELSE {"incomplete_or_compile_panic"})

---------------------------------------------------------------------------
(***************************************************************************)
(* ECMAScript reference grammar of the subset (independent of the parser's *)
(* binding-power table): operator levels, well-formedness of a tree with   *)
(* respect to them, the in-order token yield of a tree, automatic          *)
(* semicolon insertion, and an independent unparser to token lists.        *)
(* CL: function  custom operator name -> level  (empty for plain xjs).     *)
(***************************************************************************)
ES_ASSIGN == 2
ES_UNARY == 9
ES_POSTFIX == 10
ES_LHS == 11        \* call / member / index chains (LeftHandSideExpression)
ES_PRIMARY == 13

ESBinLevel(op) ==
  CASE op = "||" -> 3 [] op = "&&" -> 4 [] op \in {"==", "!="} -> 5
    [] op \in {"<", ">", "<=", ">="} -> 6 [] op \in {"+", "-"} -> 7
    [] op \in {"*", "/", "%"} -> 8 [] OTHER -> 0

OpTy(op) ==
  CASE op = "||" -> "OR" [] op = "&&" -> "AND" [] op = "==" -> "EQ" [] op = "!=" -> "NOT_EQ"
    [] op = "<" -> "LT" [] op = ">" -> "GT" [] op = "<=" -> "LTE" [] op = ">=" -> "GTE"
    [] op = "+" -> "PLUS" [] op = "-" -> "MINUS" [] op = "*" -> "MULTIPLY" [] op = "/" -> "DIVIDE"
    [] op = "%" -> "MODULO" [] op = "!" -> "NOT" [] op = "++" -> "INCREMENT" [] op = "--" -> "DECREMENT"
    [] op = "=" -> "ASSIGN" [] op = "+=" -> "PLUS_ASSIGN" [] op = "-=" -> "MINUS_ASSIGN"
    [] OTHER -> op     \* custom operators: the token type is the operator's name

Lv(n, CL) ==
  CASE n.k = "bin" -> ESBinLevel(n.op)
    [] n.k \in {"asg", "casg"} -> ES_ASSIGN
    [] n.k = "un" -> ES_UNARY
    [] n.k = "post" -> ES_POSTFIX
    [] n.k \in {"call", "mem", "idx"} -> ES_LHS
    [] n.k = "cbin" -> CL[n.op]
    [] n.k = "cun" -> ES_UNARY
    [] n.k = "cpost" -> ES_LHS
    [] OTHER -> ES_PRIMARY

IsTarget(n) == n.k \in {"id", "mem", "idx"}
IsStmtKind(k) == k \in {"let", "ret", "expr", "fdecl", "blk", "if", "while", "for", "prog"}

RECURSIVE WellFormedES(_, _)
WellFormedES(n, CL) ==
  /\ CASE n.k \in {"bin", "cbin"} ->
            /\ Len(n.c) = 2 /\ Lv(n, CL) > 0
            /\ Lv(n.c[1], CL) >= Lv(n, CL)        \* left operand: same level or tighter
            /\ Lv(n.c[2], CL) > Lv(n, CL)         \* right operand: strictly tighter (left assoc.)
       [] n.k \in {"asg", "casg"} -> IsTarget(n.c[1]) /\ Lv(n.c[2], CL) >= ES_ASSIGN
       [] n.k = "un" -> /\ Lv(n.c[1], CL) >= ES_UNARY
                        /\ (n.op \in {"++", "--"} => IsTarget(n.c[1]))
       [] n.k = "cun" -> Lv(n.c[1], CL) >= ES_UNARY
       [] n.k = "post" -> Lv(n.c[1], CL) >= ES_LHS /\ IsTarget(n.c[1])
       [] n.k = "cpost" -> Lv(n.c[1], CL) >= ES_LHS
       [] n.k = "call" -> /\ Lv(n.c[1], CL) >= ES_LHS
                          /\ \A j \in 2..Len(n.c) : Lv(n.c[j], CL) >= ES_ASSIGN
       [] n.k = "mem" -> Lv(n.c[1], CL) >= ES_LHS /\ n.c[2].k \in {"id", "bool", "null"}
       [] n.k = "idx" -> Lv(n.c[1], CL) >= ES_LHS
       [] OTHER -> TRUE
  /\ \A j \in 1..Len(n.c) : IsNilNode(n.c[j]) \/ WellFormedES(n.c[j], CL)

---------------------------------------------------------------------------
(* Tokens of the reference side: [ty, lit, nl] plus renderer marks:        *)
(*   nonl  a line break in front of this token would change the program    *)
(*         (restricted productions: after `return`, before postfix ++/--)  *)
(*   sb    first token of a statement that follows another in a list       *)
(*   opt   a statement-terminating `;` (may be left to ASI)                *)
Tk(ty, lit) == [ty |-> ty, lit |-> lit, nl |-> FALSE, nonl |-> FALSE, sb |-> FALSE, opt |-> FALSE, bc |-> FALSE]
Kw(ty) == Tk(ty, "")
MarkFirst(ts, f) == IF Len(ts) = 0 THEN ts ELSE [ts EXCEPT ![1] = [@ EXCEPT ![f] = TRUE]]

RECURSIVE RenderE(_, _, _, _), RenderList(_, _, _), RenderS(_, _, _), RenderSeq(_, _, _, _), RenderObj(_, _, _)

Paren(ts) == <<Kw("LPAREN")>> \o ts \o <<Kw("RPAREN")>>

\* expression n in a position that requires level >= min; red: also parenthesise every
\* non-primary operand (redundant parentheses)
RenderE(n, min, red, CL) ==
  LET lv == Lv(n, CL)
      body ==
        CASE n.k = "id" -> <<Tk("IDENT", n.op)>>
          [] n.k = "num" -> <<Tk("INT", n.op)>>
          [] n.k = "flt" -> <<Tk("FLOAT", n.op)>>
          [] n.k = "str" -> <<Tk("STRING", n.op)>>
          [] n.k = "raw" -> <<Tk("RAW_STRING", n.op)>>
          [] n.k = "bool" -> <<Kw(IF n.op = "true" THEN "TRUE" ELSE "FALSE")>>
          [] n.k = "null" -> <<Kw("NULL")>>
          [] n.k = "grp" -> Paren(RenderE(n.c[1], 1, FALSE, CL))
          [] n.k \in {"bin", "cbin"} ->
               RenderE(n.c[1], lv, red, CL) \o <<Tk(OpTy(n.op), n.op)>> \o RenderE(n.c[2], lv + 1, red, CL)
          [] n.k \in {"asg", "casg"} ->
               RenderE(n.c[1], ES_LHS, FALSE, CL) \o <<Tk(OpTy(n.op), n.op)>> \o RenderE(n.c[2], ES_ASSIGN, red, CL)
          [] n.k \in {"un", "cun"} -> <<Tk(OpTy(n.op), n.op)>> \o RenderE(n.c[1], ES_UNARY, red /\ n.op \notin {"++", "--"}, CL)
          [] n.k = "post" -> RenderE(n.c[1], ES_LHS, FALSE, CL) \o <<[Tk(OpTy(n.op), n.op) EXCEPT !.nonl = TRUE]>>
          [] n.k = "cpost" -> RenderE(n.c[1], ES_LHS, FALSE, CL) \o <<Tk(OpTy(n.op), n.op)>>
          [] n.k = "call" ->
               RenderE(n.c[1], ES_LHS, FALSE, CL) \o <<Kw("LPAREN")>> \o RenderList(SubSeq(n.c, 2, Len(n.c)), red, CL) \o <<Kw("RPAREN")>>
          [] n.k = "mem" -> RenderE(n.c[1], ES_LHS, FALSE, CL) \o <<Kw("DOT")>> \o RenderE(n.c[2], ES_PRIMARY, FALSE, CL)
          [] n.k = "idx" ->
               RenderE(n.c[1], ES_LHS, FALSE, CL) \o <<Kw("LBRACKET")>> \o RenderE(n.c[2], 1, red, CL) \o <<Kw("RBRACKET")>>
          [] n.k = "arr" -> <<Kw("LBRACKET")>> \o RenderList(n.c, red, CL) \o <<Kw("RBRACKET")>>
          [] n.k = "obj" -> <<Kw("LBRACE")>> \o RenderObj(n.c, red, CL) \o <<Kw("RBRACE")>>
          [] n.k = "fn" ->
               <<Kw("FUNCTION")>> \o (IF IsNilNode(n.c[1]) THEN <<>> ELSE <<Tk("IDENT", n.c[1].op)>>)
               \o <<Kw("LPAREN")>> \o RenderList(n.c[2].c, FALSE, CL) \o <<Kw("RPAREN")>> \o RenderS(n.c[3], FALSE, CL)
          [] n.k = "lete" ->
               <<Kw("LET"), Tk("IDENT", n.c[1].op)>>
               \o (IF IsNilNode(n.c[2]) THEN <<>> ELSE <<Kw("ASSIGN")>> \o RenderE(n.c[2], ES_ASSIGN, red, CL))
  IN IF lv < min \/ (red /\ lv < ES_PRIMARY /\ n.k # "lete") THEN Paren(body) ELSE body

RenderList(es, red, CL) ==
  IF Len(es) = 0 THEN <<>>
  ELSE RenderE(es[1], ES_ASSIGN, red, CL)
       \o (IF Len(es) = 1 THEN <<>> ELSE <<Kw("COMMA")>> \o RenderList(Tail(es), red, CL))

RenderObj(kv, red, CL) ==
  IF Len(kv) = 0 THEN <<>>
  ELSE RenderE(kv[1], ES_PRIMARY, FALSE, CL) \o <<Kw("COLON")>> \o RenderE(kv[2], ES_ASSIGN, red, CL)
       \o (IF Len(kv) = 2 THEN <<>> ELSE <<Kw("COMMA")>> \o RenderObj(SubSeq(kv, 3, Len(kv)), red, CL))

Semi == [Kw("SEMICOLON") EXCEPT !.opt = TRUE]
\* tokens that must not start an expression statement (they would start another construct)
StartsOtherConstruct(ts) == Len(ts) > 0 /\ ts[1].ty \in {"FUNCTION", "LBRACE", "LET"}

\* statement s; red: redundant parentheses.  Terminating `;` is always emitted (marked
\* opt); layouts drop it where ASI applies.
RenderS(s, red, CL) ==
  LET r == red IN
  CASE s.k = "expr" -> RenderE(s.c[1], 1, r, CL) \o <<Semi>>
    [] s.k = "let" ->
         <<Kw("LET"), Tk("IDENT", s.c[1].op)>>
         \o (IF IsNilNode(s.c[2]) THEN <<>> ELSE <<Kw("ASSIGN")>> \o RenderE(s.c[2], ES_ASSIGN, r, CL)) \o <<Semi>>
    [] s.k = "ret" ->
         <<Kw("RETURN")>> \o (IF IsNilNode(s.c[1]) THEN <<>> ELSE MarkFirst(RenderE(s.c[1], 1, r, CL), "nonl")) \o <<Semi>>
    [] s.k = "blk" -> <<Kw("LBRACE")>> \o RenderSeq(s.c, 1, red, CL) \o <<[Kw("RBRACE") EXCEPT !.bc = TRUE]>>
    [] s.k = "fdecl" ->
         <<Kw("FUNCTION"), Tk("IDENT", s.c[1].op), Kw("LPAREN")>> \o RenderList(s.c[2].c, FALSE, CL)
         \o <<Kw("RPAREN")>> \o RenderS(s.c[3], red, CL)
    [] s.k = "if" ->
         <<Kw("IF"), Kw("LPAREN")>> \o RenderE(s.c[1], 1, r, CL) \o <<Kw("RPAREN")>> \o RenderS(s.c[2], red, CL)
         \o (IF IsNilNode(s.c[3]) THEN <<>> ELSE <<Kw("ELSE")>> \o RenderS(s.c[3], red, CL))
    [] s.k = "while" ->
         <<Kw("WHILE"), Kw("LPAREN")>> \o RenderE(s.c[1], 1, r, CL) \o <<Kw("RPAREN")>> \o RenderS(s.c[2], red, CL)
    [] s.k = "for" ->
         <<Kw("FOR"), Kw("LPAREN")>>
         \o (IF IsNilNode(s.c[1]) THEN <<>> ELSE RenderE(s.c[1], 1, r, CL)) \o <<Kw("SEMICOLON")>>
         \o (IF IsNilNode(s.c[2]) THEN <<>> ELSE RenderE(s.c[2], 1, r, CL)) \o <<Kw("SEMICOLON")>>
         \o (IF IsNilNode(s.c[3]) THEN <<>> ELSE RenderE(s.c[3], 1, r, CL)) \o <<Kw("RPAREN")>>
         \o RenderS(s.c[4], red, CL)

RenderSeq(ss, j, red, CL) ==
  IF j > Len(ss) THEN <<>>
  ELSE (IF j = 1 THEN RenderS(ss[j], red, CL) ELSE MarkFirst(RenderS(ss[j], red, CL), "sb"))
       \o RenderSeq(ss, j + 1, red, CL)

RenderProg(p, red, CL) == RenderSeq(p.c, 1, red, CL)

\* A rendered program is inside the subset only when no expression statement starts with a token
\* that would start a declaration / block / let statement instead.
RECURSIVE StmtStartsOK(_, _)
StmtStartsOK(n, CL) ==
  /\ (n.k = "expr" => ~StartsOtherConstruct(RenderE(n.c[1], 1, FALSE, CL)))
  /\ \A j \in 1..Len(n.c) : IsNilNode(n.c[j]) \/ StmtStartsOK(n.c[j], CL)

---------------------------------------------------------------------------
(* Layouts.  sep: 1 = `;` and a space, 2 = line break only (ASI), 3 = `;` and a line break.      *)
(* brk: set of token indices that get a line break in front (only where ~nonl).                 *)
\* tokens in front of which a line break does NOT end the previous statement in ECMAScript
\* (the statement simply continues), so "line break only" cannot separate there
ContinuesAcrossNewline(ty) ==
  ty \in {"LPAREN", "LBRACKET", "MINUS", "PLUS", "RAW_STRING", "DOT", "ASSIGN", "PLUS_ASSIGN", "MINUS_ASSIGN",
          "MULTIPLY", "DIVIDE", "MODULO", "EQ", "NOT_EQ", "LT", "GT", "LTE", "GTE", "AND", "OR", "COMMA"}

\* can the opt `;` at position j be dropped under separator mode sep?  (next token decides)
SepOK(ts, sep) ==
  sep # 2 \/ \A j \in 1..Len(ts) :
     (ts[j].opt /\ j < Len(ts)) =>
        LET nx == ts[j + 1] IN
        \/ nx.ty = "RBRACE"
        \/ nx.ty = "ELSE"                                \* `b \n else` - ASI before the offending token
        \/ ~ContinuesAcrossNewline(nx.ty) /\ ~nx.nonl

RECURSIVE LayoutFrom(_, _, _, _)
LayoutFrom(ts, j, sep, brk) ==
  IF j > Len(ts) THEN <<>>
  ELSE LET t     == ts[j]
           prevOptDropped == sep = 2 /\ j > 1 /\ ts[j - 1].opt
           afterSemiNl    == sep = 3 /\ j > 1 /\ ts[j - 1].opt
           nlHere == \/ j \in brk /\ ~t.nonl /\ j > 1
                     \/ (prevOptDropped /\ t.ty # "RBRACE") \/ afterSemiNl
                     \/ (sep \in {2, 3} /\ t.sb)
       IN IF sep = 2 /\ t.opt THEN LayoutFrom(ts, j + 1, sep, brk)
          ELSE <<[ty |-> t.ty, lit |-> t.lit, nl |-> nlHere, ok |-> TRUE]>> \o LayoutFrom(ts, j + 1, sep, brk)

\* like SepOK, but a statement may also begin with `(` or `[` after a line break (smart-semicolon
\* mode cuts there)
SepOKSmart(ts) ==
  \A j \in 1..Len(ts) :
     (ts[j].opt /\ j < Len(ts)) =>
        LET nx == ts[j + 1] IN
        \/ nx.ty \in {"RBRACE", "ELSE", "LPAREN", "LBRACKET"}
        \/ ~ContinuesAcrossNewline(nx.ty) /\ ~nx.nonl

\* the laid-out token list, closed by EOF
Layout(ts, sep, brk) ==
  LET body == LayoutFrom(ts, 1, sep, brk)
  IN body \o <<[ty |-> "EOF", lit |-> "", nl |-> (sep = 3 /\ Len(ts) > 0 /\ ts[Len(ts)].opt), ok |-> TRUE]>>

---------------------------------------------------------------------------
(* The declarative property of C02 on an observed (token list, tree):       *)
(*   Yield    the in-order yield of the tree is the token list, up to       *)
(*            statement-terminating semicolons                              *)
(*   WF       every operator node is well-formed w.r.t. the ES levels       *)
(*   ASI      every statement end without `;` is one where ES inserts one,  *)
(*            and the restricted productions are honoured                   *)
\* yield of the real tree: like rendering with no added parentheses (grouping nodes are explicit)
RECURSIVE YieldE(_), YieldList(_), YieldObj(_), YieldS(_), YieldSeq(_, _)
YieldE(n) ==
  CASE n.k = "id" -> <<Tk("IDENT", n.op)>>
    [] n.k = "num" -> <<Tk("INT", n.op)>>
    [] n.k = "flt" -> <<Tk("FLOAT", n.op)>>
    [] n.k = "str" -> <<Tk("STRING", n.op)>>
    [] n.k = "raw" -> <<Tk("RAW_STRING", n.op)>>
    [] n.k = "bool" -> <<Kw(IF n.op = "true" THEN "TRUE" ELSE "FALSE")>>
    [] n.k = "null" -> <<Kw("NULL")>>
    [] n.k = "grp" -> Paren(YieldE(n.c[1]))
    [] n.k \in {"bin", "cbin", "asg", "casg"} -> YieldE(n.c[1]) \o <<Tk(OpTy(n.op), n.op)>> \o YieldE(n.c[2])
    [] n.k \in {"un", "cun"} -> <<Tk(OpTy(n.op), n.op)>> \o YieldE(n.c[1])
    [] n.k \in {"post", "cpost"} -> YieldE(n.c[1]) \o <<[Tk(OpTy(n.op), n.op) EXCEPT !.nonl = (n.k = "post")]>>
    [] n.k = "call" -> YieldE(n.c[1]) \o <<Kw("LPAREN")>> \o YieldList(SubSeq(n.c, 2, Len(n.c))) \o <<Kw("RPAREN")>>
    [] n.k = "mem" -> YieldE(n.c[1]) \o <<Kw("DOT")>> \o YieldE(n.c[2])
    [] n.k = "idx" -> YieldE(n.c[1]) \o <<Kw("LBRACKET")>> \o YieldE(n.c[2]) \o <<Kw("RBRACKET")>>
    [] n.k = "arr" -> <<Kw("LBRACKET")>> \o YieldList(n.c) \o <<Kw("RBRACKET")>>
    [] n.k = "obj" -> <<Kw("LBRACE")>> \o YieldObj(n.c) \o <<Kw("RBRACE")>>
    [] n.k = "fn" ->
         <<Kw("FUNCTION")>> \o (IF IsNilNode(n.c[1]) THEN <<>> ELSE <<Tk("IDENT", n.c[1].op)>>)
         \o <<Kw("LPAREN")>> \o YieldList(n.c[2].c) \o <<Kw("RPAREN")>> \o YieldS(n.c[3])
    [] n.k = "lete" ->
         <<Kw("LET"), Tk("IDENT", n.c[1].op)>>
         \o (IF IsNilNode(n.c[2]) THEN <<>> ELSE <<Kw("ASSIGN")>> \o YieldE(n.c[2]))
    [] OTHER -> <<Tk("?", n.k)>>
YieldList(es) ==
  IF Len(es) = 0 THEN <<>>
  ELSE YieldE(es[1]) \o (IF Len(es) = 1 THEN <<>> ELSE <<Kw("COMMA")>> \o YieldList(Tail(es)))
YieldObj(kv) ==
  IF Len(kv) = 0 THEN <<>>
  ELSE YieldE(kv[1]) \o <<Kw("COLON")>> \o YieldE(kv[2])
       \o (IF Len(kv) = 2 THEN <<>> ELSE <<Kw("COMMA")>> \o YieldObj(SubSeq(kv, 3, Len(kv))))
YieldS(s) ==
  CASE s.k = "expr" -> YieldE(s.c[1]) \o <<Semi>>
    [] s.k = "let" ->
         <<Kw("LET"), Tk("IDENT", s.c[1].op)>>
         \o (IF IsNilNode(s.c[2]) THEN <<>> ELSE <<Kw("ASSIGN")>> \o YieldE(s.c[2])) \o <<Semi>>
    [] s.k = "ret" -> <<Kw("RETURN")>> \o (IF IsNilNode(s.c[1]) THEN <<>> ELSE MarkFirst(YieldE(s.c[1]), "nonl")) \o <<Semi>>
    [] s.k = "blk" -> <<Kw("LBRACE")>> \o YieldSeq(s.c, 1) \o <<Kw("RBRACE")>>
    [] s.k = "fdecl" ->
         <<Kw("FUNCTION"), Tk("IDENT", s.c[1].op), Kw("LPAREN")>> \o YieldList(s.c[2].c) \o <<Kw("RPAREN")>> \o YieldS(s.c[3])
    [] s.k = "if" ->
         <<Kw("IF"), Kw("LPAREN")>> \o YieldE(s.c[1]) \o <<Kw("RPAREN")>> \o YieldS(s.c[2])
         \o (IF IsNilNode(s.c[3]) THEN <<>> ELSE <<Kw("ELSE")>> \o YieldS(s.c[3]))
    [] s.k = "while" -> <<Kw("WHILE"), Kw("LPAREN")>> \o YieldE(s.c[1]) \o <<Kw("RPAREN")>> \o YieldS(s.c[2])
    [] s.k = "for" ->
         <<Kw("FOR"), Kw("LPAREN")>>
         \o (IF IsNilNode(s.c[1]) THEN <<>> ELSE YieldE(s.c[1])) \o <<Kw("SEMICOLON")>>
         \o (IF IsNilNode(s.c[2]) THEN <<>> ELSE YieldE(s.c[2])) \o <<Kw("SEMICOLON")>>
         \o (IF IsNilNode(s.c[3]) THEN <<>> ELSE YieldE(s.c[3])) \o <<Kw("RPAREN")>> \o YieldS(s.c[4])
    [] OTHER -> <<Tk("?", s.k)>>
YieldSeq(ss, j) == IF j > Len(ss) THEN <<>> ELSE YieldS(ss[j]) \o YieldSeq(ss, j + 1)

\* Match the yield y (with opt `;` marks and nonl marks) against the observed tokens toks
\* (last one EOF): returns TRUE iff they agree and every virtual semicolon is justified by ES.
SameTok(a, b) == a.ty = b.ty /\ (a.ty \in {"IDENT", "INT", "FLOAT", "STRING", "RAW_STRING"} => a.lit = b.lit)
RECURSIVE MatchYield(_, _, _, _)
MatchYield(y, i, toks, j) ==
  IF i > Len(y) THEN toks[j].ty = "EOF"
  ELSE IF y[i].opt THEN
         IF toks[j].ty = "SEMICOLON" THEN MatchYield(y, i + 1, toks, j + 1)
         ELSE \* virtual semicolon in front of toks[j]: ES rule 1 (offending token)
              /\ \/ toks[j].ty \in {"EOF", "RBRACE"}
                 \/ toks[j].nl /\ ~ContinuesAcrossNewline(toks[j].ty)
                 \/ toks[j].nl /\ toks[j].ty \in {"INCREMENT", "DECREMENT"}
              /\ MatchYield(y, i + 1, toks, j)
  ELSE /\ j <= Len(toks) /\ SameTok(y[i], toks[j])
       /\ (y[i].nonl => ~toks[j].nl)         \* restricted productions not crossed
       /\ MatchYield(y, i + 1, toks, j + 1)

C02_Yield(toks, tree) == MatchYield(YieldSeq(tree.c, 1), 1, toks, 1)
C02_WF(tree) == WellFormedES(tree, <<>>)
C02_Failures(toks, res, expect) ==
  (IF Len(res.errors) = 0 /\ ~res.err THEN {} ELSE {"subset_program_rejected"})
  \cup (IF Strip(res.tree) = expect THEN {} ELSE {"tree_differs_from_ecmascript"})
  \cup (IF Len(res.errors) > 0 \/ (C02_Yield(toks, res.tree) /\ C02_WF(res.tree)) THEN {} ELSE {"yield_or_levels"})

---------------------------------------------------------------------------
(* The mode contract of C13 on REAL results.  rec = [kind, want, toks (real tokens of the   *)
(* input), r00, r10, r01, r11 (strict/tolerant x default/smart: [tree, nerr, err]), ra      *)
(* (default-mode result on the input with `;` put in front of every line-leading `(`/`[`)]  *)
C13_LLB(toks) == \E j \in 1..Len(toks) : toks[j].nl /\ toks[j].ty \in {"LPAREN", "LBRACKET"}
SameRes(a, b) == a.tree = b.tree /\ a.nerr = b.nerr /\ a.err = b.err
C13_Failures(rec) ==
  LET llb == C13_LLB(rec.toks)
      strictOK == rec.r00.nerr = 0 /\ ~rec.r00.err
  IN
  \* (a) on every program strict mode accepts, tolerant mode returns the identical tree, no errors
  (IF strictOK => SameRes(rec.r10, rec.r00) THEN {} ELSE {"tolerant_differs_on_accepted_program"})
  \* (c) smart = default unless a `(` / `[` starts a line ...
  \cup (IF llb \/ (SameRes(rec.r01, rec.r00) /\ SameRes(rec.r11, rec.r10)) THEN {} ELSE {"smart_differs_without_line_leading_bracket"})
  \*     ... and then exactly as if a semicolon preceded it
  \cup (IF ~llb \/ rec.ra.nerr > 0 \/ rec.ra.err \/ SameRes(rec.r01, rec.ra) THEN {} ELSE {"smart_is_not_default_with_semicolon"})
  \cup (IF rec.kind = "smart" => (rec.r01.nerr = 0 /\ ~rec.r01.err /\ Strip(rec.r01.tree) = rec.want)
        THEN {} ELSE {"smart_loses_line_leading_bracket_statement"})
  \* (b) tolerant mode accepts, keeping every complete statement, fused statements and open blocks
  \cup (IF (rec.kind \in {"fuse", "open"} /\ ~strictOK) =>
            (rec.r10.nerr = 0 /\ ~rec.r10.err /\ Strip(rec.r10.tree) = rec.want
             /\ (llb \/ (rec.r11.nerr = 0 /\ Strip(rec.r11.tree) = rec.want)))
        THEN {} ELSE {"tolerant_" \o rec.kind})
  \* a subset program is accepted by strict mode with the ECMAScript tree (C02, repeated here so
  \* that the mode comparison is not vacuous)
  \cup (IF rec.kind = "same" => (strictOK /\ Strip(rec.r00.tree) = rec.want) THEN {} ELSE {"strict_rejects_subset_program"})

---------------------------------------------------------------------------
(* C12 on a REAL strict-mode result for a corrupted text that reference parsers reject:      *)
(* rec = [intact (index into toks of the last intact token before the corruption, 0: none), *)
(*        toks (real tokens with sl, sc), errors (real, with sl, sc)]                        *)
PosGE(l1, c1, l2, c2) == l1 > l2 \/ (l1 = l2 /\ c1 >= c2)
C12_Failures(rec) ==
  IF Len(rec.errors) = 0 THEN {"malformed_program_accepted"}
  ELSE IF rec.intact = 0 \/ rec.intact > Len(rec.toks) THEN {}
  ELSE LET e == rec.errors[1]
           k == rec.toks[rec.intact]
       IN IF PosGE(e.sl, e.sc, k.sl, k.sc) THEN {} ELSE {"first_error_before_last_intact_token"}

---------------------------------------------------------------------------
(***************************************************************************)
(* Operator-precedence well-formedness on the DOCUMENTED level scale of    *)
(* xjs (LOWEST = 1 .. MEMBER = 12), for trees that mix built-in operators  *)
(* with registered ones.  CL: custom infix operator name -> level.         *)
(* A registered prefix operator has the level of the built-in unary        *)
(* operators, a registered postfix operator that of a call.                *)
(* Declarative (no parsing algorithm): for every operator node, nothing on *)
(* the facing spine of an operand may bind looser than the node itself.    *)
(***************************************************************************)
XFix(n) ==
  CASE n.k \in {"bin", "cbin", "asg", "casg", "mem"} -> "infix"
    [] n.k \in {"un", "cun"} -> "prefix"
    [] n.k \in {"post", "cpost", "call", "idx"} -> "postfix"
    [] OTHER -> "atom"
XLevel(n, CL) ==
  CASE n.k = "bin" -> ESBinLevel(n.op)
    [] n.k \in {"asg", "casg"} -> 2
    [] n.k \in {"un", "cun"} -> 9
    [] n.k = "post" -> 10
    [] n.k \in {"call", "cpost"} -> 11
    [] n.k \in {"idx", "mem"} -> 12
    [] n.k = "cbin" -> CL[n.op]
    [] OTHER -> 99
RECURSIVE RSpine(_), LSpine(_)
\* operator nodes whose last token is the last token of x / whose first token is its first
RSpine(x) == IF IsNilNode(x) THEN {}
             ELSE IF XFix(x) = "infix" THEN {x} \cup RSpine(x.c[2])
             ELSE IF XFix(x) = "prefix" THEN {x} \cup RSpine(x.c[1]) ELSE {}
LSpine(x) == IF IsNilNode(x) THEN {}
             ELSE IF XFix(x) \in {"infix", "postfix"} THEN {x} \cup LSpine(x.c[1]) ELSE {}
RECURSIVE WFX(_, _)
WFX(n, CL) ==
  /\ LET p == XLevel(n, CL) IN
     CASE n.k \in {"bin", "cbin", "mem"} ->
            /\ \A y \in RSpine(n.c[1]) : XLevel(y, CL) >= p
            /\ \A y \in LSpine(n.c[2]) : XLevel(y, CL) > p
       [] n.k \in {"asg", "casg"} ->
            /\ \A y \in RSpine(n.c[1]) : XLevel(y, CL) > p
            /\ \A y \in LSpine(n.c[2]) : XLevel(y, CL) >= p
       [] XFix(n) = "prefix" -> \A y \in LSpine(n.c[1]) : XLevel(y, CL) > p
       [] XFix(n) = "postfix" -> \A y \in RSpine(n.c[1]) : XLevel(y, CL) >= p
       [] OTHER -> TRUE
  /\ \A j \in 1..Len(n.c) : IsNilNode(n.c[j]) \/ WFX(n.c[j], CL)

\* C05 (grouping part) on a REAL result for an operator string: rec = [toks, res = [tree, nerr,
\* err], cl (custom infix levels), lowest (a registered infix operator of level 1 occurs)]
C05A_Failures(rec) ==
  IF rec.lowest THEN (IF rec.res.nerr > 0 THEN {} ELSE {"level_1_operator_not_reported"})
  ELSE (IF rec.res.nerr = 0 /\ ~rec.res.err THEN {} ELSE {"operator_string_rejected"})
       \cup (IF rec.res.nerr > 0 \/ C02_Yield(rec.toks, rec.res.tree) THEN {} ELSE {"yield"})
       \cup (IF rec.res.nerr > 0 \/ WFX(rec.res.tree, rec.cl) THEN {} ELSE {"grouping_not_by_level"})


---------------------------------------------------------------------------
(***************************************************************************)
(* Parse steps and syntactic nesting, read off a tree and its token list   *)
(* (for C04 and C16).  A "request" is one invocation of the statement or   *)
(* expression parse function: every statement, and every expression in an  *)
(* operand position (statement expression, initialiser, condition, right   *)
(* operand, prefix operand, argument, element, key, value, property,        *)
(* index, grouped expression).  Requests are listed in source order of      *)
(* their first token, outer before inner: [kind, tok, infn, inner] with     *)
(* inner in {"top", "block", "fnbody"}.                                     *)
(***************************************************************************)
Rq(kind, i, c) == [kind |-> kind, tok |-> i, infn |-> c.infn, inner |-> c.inner]
TopCx == [infn |-> FALSE, inner |-> "top"]
FnCx == [infn |-> TRUE, inner |-> "fnbody"]
BlockCx(c) == [c EXCEPT !.inner = "block"]
ParamsLen(ps) == IF Len(ps.c) = 0 THEN 0 ELSE 2 * Len(ps.c) - 1
RI(r, i) == [r |-> r, i |-> i]

\* Every operator returns [r |-> requests in source order, i |-> index of the token after the construct].
RECURSIVE EIn(_, _, _, _), EReq(_, _, _, _), EListReq(_, _, _, _), ObjReq(_, _, _, _),
          SReq(_, _, _, _), SSeqReq(_, _, _, _)
\* expression e, requested at token i
EReq(e, i, c, toks) == LET x == EIn(e, i, c, toks) IN RI(<<Rq("expr", i, c)>> \o x.r, x.i)
\* expressions es, the first at i, separated by one token; i = index after the last one (i if none)
EListReq(es, i, c, toks) ==
  IF Len(es) = 0 THEN RI(<<>>, i)
  ELSE LET a == EReq(es[1], i, c, toks) IN
       IF Len(es) = 1 THEN a
       ELSE LET b == EListReq(Tail(es), a.i + 1, c, toks) IN RI(a.r \o b.r, b.i)
ObjReq(kv, i, c, toks) ==
  IF Len(kv) = 0 THEN RI(<<>>, i)
  ELSE LET k == EReq(kv[1], i, c, toks)
           v == EReq(kv[2], k.i + 1, c, toks)
       IN IF Len(kv) = 2 THEN RI(k.r \o v.r, v.i)
          ELSE LET b == ObjReq(SubSeq(kv, 3, Len(kv)), v.i + 1, c, toks) IN RI(k.r \o v.r \o b.r, b.i)
\* requests made while parsing e (which starts at i), not counting the request for e itself
EIn(e, i, c, toks) ==
  CASE e.k \in {"bin", "cbin", "asg", "casg", "mem"} ->
         LET l == EIn(e.c[1], i, c, toks)
             r == EReq(e.c[2], l.i + 1, c, toks)
         IN RI(l.r \o r.r, r.i)
    [] e.k \in {"un", "cun"} -> EReq(e.c[1], i + 1, c, toks)
    [] e.k = "grp" -> LET x == EReq(e.c[1], i + 1, c, toks) IN RI(x.r, x.i + 1)
    [] e.k \in {"post", "cpost"} -> LET l == EIn(e.c[1], i, c, toks) IN RI(l.r, l.i + 1)
    [] e.k = "call" ->
         LET f == EIn(e.c[1], i, c, toks)
             a == EListReq(SubSeq(e.c, 2, Len(e.c)), f.i + 1, c, toks)
         IN RI(f.r \o a.r, a.i + 1)
    [] e.k = "idx" ->
         LET o == EIn(e.c[1], i, c, toks)
             x == EReq(e.c[2], o.i + 1, c, toks)
         IN RI(o.r \o x.r, x.i + 1)
    [] e.k = "arr" -> LET a == EListReq(e.c, i + 1, c, toks) IN RI(a.r, a.i + 1)
    [] e.k = "obj" -> LET a == ObjReq(e.c, i + 1, c, toks) IN RI(a.r, a.i + 1)
    [] e.k = "fn" ->
         LET j == i + 1 + (IF IsNilNode(e.c[1]) THEN 0 ELSE 1) + 1 + ParamsLen(e.c[2]) + 1
             b == SSeqReq(e.c[3].c, j + 1, FnCx, toks)
         IN RI(b.r \o <<Rq("close", b.i, c)>>, b.i + 1)
    [] e.k = "lete" -> IF IsNilNode(e.c[2]) THEN RI(<<>>, i + 2) ELSE EReq(e.c[2], i + 3, c, toks)
    [] OTHER -> RI(<<>>, i + 1)

SkipSemi(toks, j) == IF j <= Len(toks) /\ toks[j].ty = "SEMICOLON" THEN j + 1 ELSE j
\* statement s whose first token is toks[i]
SReq(s, i, c, toks) ==
  LET me == <<Rq("stmt", i, c)>> IN
  CASE s.k = "expr" -> LET x == EReq(s.c[1], i, c, toks) IN RI(me \o x.r, SkipSemi(toks, x.i))
    [] s.k = "let" ->
         IF IsNilNode(s.c[2]) THEN RI(me, SkipSemi(toks, i + 2))
         ELSE LET x == EReq(s.c[2], i + 3, c, toks) IN RI(me \o x.r, SkipSemi(toks, x.i))
    [] s.k = "ret" ->
         IF IsNilNode(s.c[1]) THEN RI(me, SkipSemi(toks, i + 1))
         ELSE LET x == EReq(s.c[1], i + 1, c, toks) IN RI(me \o x.r, SkipSemi(toks, x.i))
    [] s.k = "blk" -> LET b == SSeqReq(s.c, i + 1, BlockCx(c), toks) IN RI(me \o b.r \o <<Rq("close", b.i, c)>>, b.i + 1)
    [] s.k = "fdecl" ->
         LET j == i + 2 + 1 + ParamsLen(s.c[2]) + 1
             b == SSeqReq(s.c[3].c, j + 1, FnCx, toks)
         IN RI(me \o b.r \o <<Rq("close", b.i, c)>>, b.i + 1)
    [] s.k = "if" ->
         LET cd == EReq(s.c[1], i + 2, c, toks)
             th == SReq(s.c[2], cd.i + 1, c, toks)
         IN IF IsNilNode(s.c[3]) THEN RI(me \o cd.r \o th.r, th.i)
            ELSE LET el == SReq(s.c[3], th.i + 1, c, toks) IN RI(me \o cd.r \o th.r \o el.r, el.i)
    [] s.k = "while" ->
         LET cd == EReq(s.c[1], i + 2, c, toks)
             b  == SReq(s.c[2], cd.i + 1, c, toks)
         IN RI(me \o cd.r \o b.r, b.i)
    [] s.k = "for" ->
         LET r1 == IF IsNilNode(s.c[1]) THEN RI(<<>>, i + 2)
                   ELSE IF s.c[1].k = "lete" THEN EIn(s.c[1], i + 2, c, toks) ELSE EReq(s.c[1], i + 2, c, toks)
             r2 == IF IsNilNode(s.c[2]) THEN RI(<<>>, r1.i + 1) ELSE EReq(s.c[2], r1.i + 1, c, toks)
             r3 == IF IsNilNode(s.c[3]) THEN RI(<<>>, r2.i + 1) ELSE EReq(s.c[3], r2.i + 1, c, toks)
             b  == SReq(s.c[4], r3.i + 1, c, toks)
         IN RI(me \o r1.r \o r2.r \o r3.r \o b.r, b.i)
    [] OTHER -> RI(me, i + 1)
SSeqReq(ss, i, c, toks) ==
  IF Len(ss) = 0 THEN RI(<<>>, i)
  ELSE LET a == SReq(ss[1], i, c, toks)
           b == SSeqReq(Tail(ss), a.i, c, toks)
       IN RI(a.r \o b.r, b.i)
Requests(tree, toks) == SSeqReq(tree.c, 1, TopCx, toks).r

---------------------------------------------------------------------------
(* C04 / C16 on REAL observations.  rec = [inst (installation history: "s" statement, "e"     *)
(* pass-through expression, "r" re-entrant expression, "t" token interceptor), toks (real,    *)
(* with sl, sc, ch0 = byte at the token's start), tree, nerr, err, out (compiled text or       *)
(* ""), plog / tlog (events of the statement+expression / token interceptors), ctx, infn      *)
(* (after parsing), base = the same fields from the run with NO interceptor installed]        *)
KindCount(inst, ks) == Len(SelectSeq(inst, LAMBDA x : x \in ks))
\* expression interceptors that run on every step: up to and including the first re-entrant one
ActiveExpr(inst) ==
  LET es == SelectSeq(inst, LAMBDA x : x \in {"e", "r"})
      firstR == IF \E x \in 1..Len(es) : es[x] = "r" THEN CHOOSE y \in 1..Len(es) : es[y] = "r" /\ \A q \in 1..(y - 1) : es[q] # "r" ELSE Len(es)
  IN firstR

\* Well-nested groups: enter 1..m (same token), nested groups, exit m..1.  Returns the index after
\* the group starting at position p of log, or 0 if malformed.  groupsFrom parses groups until an exit.
RECURSIVE GroupEnd(_, _, _, _), GroupsEnd(_, _, _), Enters(_, _, _, _), Exits(_, _, _)
Enters(log, p, k, m) ==     \* enters k..m at p.., all with the token of the first
  IF k > m THEN p
  ELSE IF p <= Len(log) /\ log[p].ph = "enter" /\ log[p].id = k /\ (k = 1 \/ log[p].tok = log[p - 1].tok)
       THEN Enters(log, p + 1, k + 1, m) ELSE 0
Exits(log, p, k) ==         \* exits k..1 at p..
  IF k = 0 THEN p
  ELSE IF p > 0 /\ p <= Len(log) /\ log[p].ph = "exit" /\ log[p].id = k THEN Exits(log, p + 1, k - 1) ELSE 0
GroupsEnd(log, p, m) ==     \* zero or more groups starting at p; index of the first non-enter
  IF p = 0 THEN 0
  ELSE IF p <= Len(log) /\ log[p].ph = "enter" THEN GroupsEnd(log, GroupEnd(log, p, m, 0), m) ELSE p
GroupEnd(log, p, m, dummy) ==
  LET a == Enters(log, p, 1, m) IN
  IF a = 0 THEN 0 ELSE Exits(log, GroupsEnd(log, a, m), m)
WellNested(log, m) == m = 0 \/ GroupsEnd(log, 1, m) = Len(log) + 1

OfKind(log, kind) == SelectSeq(log, LAMBDA e : e.kind = kind)
FirstEnters(log) == SelectSeq(log, LAMBDA e : e.ph = "enter" /\ e.id = 1)

\* token interceptors: once per token, lexer on the first byte of the lexeme; only EOF is re-requested
TokenLogOK(toks, ten, tex) ==
  /\ Len(ten) = Len(tex)
  /\ Len(tex) >= Len(toks)
  /\ \A j \in 1..Len(toks) :
       /\ tex[j].l = toks[j].sl
       /\ tex[j].c = toks[j].sc
       /\ ten[j].l = toks[j].sl
       /\ ten[j].c = toks[j].sc
       /\ ten[j].ch = toks[j].ch0
  \* a further request at the end of the input: the end-of-input token again, lexer still at the end
  /\ \A q \in (Len(toks) + 1)..Len(tex) :
       /\ tex[q].ch = 0
       /\ Len(toks) > 0 =>
            /\ ten[q].l = toks[Len(toks)].sl /\ ten[q].c = toks[Len(toks)].sc /\ ten[q].ch = 0
            /\ tex[q].l = toks[Len(toks)].sl /\ tex[q].c = toks[Len(toks)].sc

\* statement nodes of a tree (also of a tree returned with errors): each was produced by one
\* statement parse step, so a statement interceptor has entered at least that many times
RECURSIVE StmtNodes(_)
StmtNodes(x) ==
  IF IsNilNode(x) THEN 0
  ELSE (IF x.k \in {"let", "ret", "expr", "fdecl", "if", "while", "for"} THEN 1
        ELSE IF x.k = "blk" THEN 1 ELSE 0)
       + LET RECURSIVE SumC(_)
             SumC(j) == IF j > Len(x.c) THEN 0 ELSE StmtNodes(x.c[j]) + SumC(j + 1)
         IN SumC(1)
\* blocks that are function bodies are not statements of their own: one per fdecl / fn node
RECURSIVE FnBodies(_)
FnBodies(x) ==
  IF IsNilNode(x) THEN 0
  ELSE (IF x.k \in {"fdecl", "fn"} /\ Len(x.c) >= 3 /\ ~IsNilNode(x.c[3]) THEN 1 ELSE 0)
       + LET RECURSIVE SumF(_)
             SumF(j) == IF j > Len(x.c) THEN 0 ELSE FnBodies(x.c[j]) + SumF(j + 1)
         IN SumF(1)

C04_Failures(rec) ==
  LET ns == KindCount(rec.inst, {"s"})
      ne == ActiveExpr(rec.inst)
      nt == KindCount(rec.inst, {"t"})
      sl == OfKind(rec.plog, "stmt")
      el == SelectSeq(OfKind(rec.plog, "expr"), LAMBDA e : e.id <= ne)
      clean == rec.nerr = 0 /\ rec.base.nerr = 0
      reqs == IF clean THEN Requests(rec.tree, rec.toks) ELSE <<>>
      sreq == SelectSeq(reqs, LAMBDA q : q.kind = "stmt")
      ereq == SelectSeq(reqs, LAMBDA q : q.kind = "expr")
      sent == FirstEnters(sl)
      eent == FirstEnters(el)
      tex(i) == SelectSeq(rec.tlog, LAMBDA e : e.ph = "exit" /\ e.id = i)
      ten(i) == SelectSeq(rec.tlog, LAMBDA e : e.ph = "enter" /\ e.id = i)
  IN
  (IF rec.tree = rec.base.tree /\ rec.nerr = rec.base.nerr /\ rec.err = rec.base.err /\ rec.errpos = rec.base.errpos
      /\ rec.toks = rec.base.toks /\ rec.out = rec.base.out THEN {} ELSE {"not_transparent"})
  \cup (IF WellNested(sl, ns) /\ WellNested(el, ne) THEN {} ELSE {"not_once_per_step_in_installation_order"})
  \cup (IF ~clean \/ ns = 0 \/ [j \in 1..Len(sent) |-> sent[j].tok] = [j \in 1..Len(sreq) |-> sreq[j].tok]
        THEN {} ELSE {"statement_steps_or_current_token"})
  \* also for inputs with errors: no statement node without a statement step
  \cup (IF ns = 0 \/ Len(sent) >= StmtNodes(rec.tree) - FnBodies(rec.tree) THEN {} ELSE {"statement_in_tree_without_interceptor_step"})
  \cup (IF ~clean \/ ne = 0 \/ [j \in 1..Len(eent) |-> eent[j].tok] = [j \in 1..Len(ereq) |-> ereq[j].tok]
        THEN {} ELSE {"expression_steps_or_current_token"})
  \cup (IF \A i \in 1..nt : TokenLogOK(rec.toks, ten(i), tex(i))
        THEN {} ELSE {"token_interceptor_not_once_per_token_at_first_byte"})

CtxOK(inner, ctx) ==
  CASE inner = "top" -> ctx = "global"
    [] inner = "block" -> ctx = "block"
    [] inner = "fnbody" -> ctx \in {"function", "block"}     \* a function body is a block owned by a function
C16_Failures(rec) ==
  LET clean == rec.nerr = 0
      reqs == IF clean THEN Requests(rec.tree, rec.toks) ELSE <<>>
      ent  == SelectSeq(rec.plog, LAMBDA e : e.ph = "enter")
      find(kind, tok) == IF \E q \in 1..Len(reqs) : reqs[q].kind = kind /\ reqs[q].tok = tok
                         THEN CHOOSE q \in 1..Len(reqs) : reqs[q].kind = kind /\ reqs[q].tok = tok ELSE 0
  IN
  (IF rec.ctx = "global" /\ ~rec.infn THEN {} ELSE {"context_not_back_at_top_level"})
  \cup (IF ~clean \/ \A j \in 1..Len(ent) :
              LET q == find(ent[j].kind, ent[j].tok) IN
              q = 0 \/ (ent[j].infn = reqs[q].infn /\ CtxOK(reqs[q].inner, ent[j].ctx))
        THEN {} ELSE {"context_query_differs_from_nesting"})


\* roles the built-in grammar already gives to built-in tokens (seeds of parser/builder.go)
BuiltinPrefixRole == BuiltinPrefix
BuiltinInfixRole == DOMAIN BuiltinPrec
BuiltinPostfixRole == {"INCREMENT", "DECREMENT"}
---------------------------------------------------------------------------
(* The declarative registration clause of C05 on an OBSERVED history: h is a sequence of     *)
(* [op, a, l, res] with the REAL replies (ids for "tok", 0 accepted / -1 refused otherwise);  *)
(* builtinIds: the numeric ids of the built-in token types.                                   *)
RoleTaken(h, k) ==
  LET e == h[k]
      earlier == \E j \in 1..(k - 1) : h[j].op = e.op /\ h[j].a = e.a /\ h[j].res = 0
  IN CASE e.op = "prefix" -> e.a \in BuiltinPrefixRole \/ earlier
       [] e.op = "infix" -> e.a \in BuiltinInfixRole \/ earlier
       [] e.op = "postfix" -> e.a \in BuiltinPostfixRole \/ earlier
C05B_Failures(h, builtinIds) ==
  LET toks == {k \in 1..Len(h) : h[k].op = "tok"}
      regs == {k \in 1..Len(h) : h[k].op # "tok"}
  IN (IF \A j, k \in toks : (h[j].a = h[k].a) <=> (h[j].res = h[k].res) THEN {} ELSE {"token_id_not_stable_or_not_distinct"})
     \cup (IF \A k \in toks : h[k].res \notin builtinIds THEN {} ELSE {"token_id_collides_with_builtin"})
     \cup (IF \A k \in regs : (h[k].res = -1) <=> RoleTaken(h, k) THEN {} ELSE {"duplicate_role_not_refused_or_free_role_refused"})
=============================================================================
