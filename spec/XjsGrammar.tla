----------------------------- MODULE XjsGrammar -----------------------------
(***************************************************************************)
(* Reference notions about trees of the subset, independent of how xjs     *)
(* computes them: completeness of a tree (mandatory children), absence of  *)
(* nil entries in statement lists, the ECMAScript operator levels and the  *)
(* well-formedness of an expression tree with respect to them.             *)
(***************************************************************************)
EXTENDS XjsParser

IsNilNode(n) == n.k \in {"nil", "tnil"}

\* tree constructors
Id(x) == Node("id", x, <<>>)
Num(x) == Node("num", x, <<>>)
A == Id("a")
B == Id("b")
PList(ps) == Node("params", "", ps)
Blk(s) == Node("blk", "", s)
E(e) == Node("expr", "", <<e>>)
Ret(e) == Node("ret", "", <<e>>)
Let(x, e) == Node("let", "", <<Id(x), e>>)
Fn(name, ps, body) == Node("fn", "", <<name, PList(ps), Blk(body)>>)
Bin(op, l, r) == Node("bin", op, <<l, r>>)
Prog(s) == Node("prog", "", s)
Grp(e) == Node("grp", "", <<e>>)
If(c, th, el) == Node("if", "", <<c, th, el>>)

\* positions (1-based child indices) that may legitimately be absent
OptionalChild(n, j) ==
  \/ n.k = "let"  /\ j = 2            \* no initialiser
  \/ n.k = "lete" /\ j = 2
  \/ n.k = "ret"  /\ j = 1
  \/ n.k = "if"   /\ j = 3
  \/ n.k = "for"  /\ j \in {1, 2, 3}
  \/ n.k = "fn"   /\ j = 1            \* anonymous function expression

RECURSIVE Complete(_)
\* every mandatory child is present, recursively
Complete(n) ==
  \A j \in 1..Len(n.c) :
     IF IsNilNode(n.c[j]) THEN OptionalChild(n, j) /\ n.c[j].k = "nil"
     ELSE Complete(n.c[j])

RECURSIVE NoNilInLists(_)
\* statement lists (program, blocks) never contain nil entries - typed or untyped
NoNilInLists(n) ==
  /\ (n.k \in {"prog", "blk"} => \A j \in 1..Len(n.c) : ~IsNilNode(n.c[j]))
  /\ \A j \in 1..Len(n.c) : NoNilInLists(n.c[j])

---------------------------------------------------------------------------
(* P_C11 on an observed result res = [tree, err, errors, compile] for the  *)
(* token list toks (records with sl, sc, el, ec) of the same input         *)

C11_ErrIff(res) == res.err <=> (Len(res.errors) > 0)
C11_NoNil(res) == NoNilInLists(res.tree)
C11_ErrRange(toks, res) ==
  \A k \in 1..Len(res.errors) :
    LET e == res.errors[k] IN
    \E j \in 1..Len(toks) : toks[j].sl = e.sl /\ toks[j].sc = e.sc /\ toks[j].el = e.el /\ toks[j].ec = e.ec
C11_Complete(res) ==
  (Len(res.errors) = 0 /\ ~res.err) =>
     /\ Complete(res.tree)
     /\ \A cfgname \in DOMAIN res.compile : res.compile[cfgname] = "ok"

C11_Failures(toks, res) ==
  (IF C11_ErrIff(res) THEN {} ELSE {"err_iff_errors"})
  \cup (IF C11_NoNil(res) THEN {} ELSE {"nil_in_statement_list"})
  \cup (IF C11_ErrRange(toks, res) THEN {} ELSE {"error_range_not_a_token"})
  \cup (IF C11_Complete(res) THEN {} ELSE {"incomplete_or_compile_panic"})

---------------------------------------------------------------------------
(***************************************************************************)
(* ECMAScript reference grammar of the subset (independent of the parser's *)
(* binding-power table): operator levels, well-formedness of a tree with   *)
(* respect to them, the in-order token yield of a tree, automatic          *)
(* semicolon insertion, and an independent unparser to token lists.        *)
(* CL: function  custom operator name -> level  (empty for plain xjs).     *)
(***************************************************************************)
ES_ASSIGN == 2
ES_UNARY == 9
ES_POSTFIX == 10
ES_LHS == 11        \* call / member / index chains (LeftHandSideExpression)
ES_PRIMARY == 13

ESBinLevel(op) ==
  CASE op = "||" -> 3 [] op = "&&" -> 4 [] op \in {"==", "!="} -> 5
    [] op \in {"<", ">", "<=", ">="} -> 6 [] op \in {"+", "-"} -> 7
    [] op \in {"*", "/", "%"} -> 8 [] OTHER -> 0

OpTy(op) ==
  CASE op = "||" -> "OR" [] op = "&&" -> "AND" [] op = "==" -> "EQ" [] op = "!=" -> "NOT_EQ"
    [] op = "<" -> "LT" [] op = ">" -> "GT" [] op = "<=" -> "LTE" [] op = ">=" -> "GTE"
    [] op = "+" -> "PLUS" [] op = "-" -> "MINUS" [] op = "*" -> "MULTIPLY" [] op = "/" -> "DIVIDE"
    [] op = "%" -> "MODULO" [] op = "!" -> "NOT" [] op = "++" -> "INCREMENT" [] op = "--" -> "DECREMENT"
    [] op = "=" -> "ASSIGN" [] op = "+=" -> "PLUS_ASSIGN" [] op = "-=" -> "MINUS_ASSIGN"
    [] OTHER -> op     \* custom operators: the token type is the operator's name

Lv(n, CL) ==
  CASE n.k = "bin" -> ESBinLevel(n.op)
    [] n.k \in {"asg", "casg"} -> ES_ASSIGN
    [] n.k = "un" -> ES_UNARY
    [] n.k = "post" -> ES_POSTFIX
    [] n.k \in {"call", "mem", "idx"} -> ES_LHS
    [] n.k = "cbin" -> CL[n.op]
    [] n.k = "cun" -> ES_UNARY
    [] n.k = "cpost" -> ES_LHS
    [] OTHER -> ES_PRIMARY

IsTarget(n) == n.k \in {"id", "mem", "idx"}
IsStmtKind(k) == k \in {"let", "ret", "expr", "fdecl", "blk", "if", "while", "for", "prog"}

RECURSIVE WellFormedES(_, _)
WellFormedES(n, CL) ==
  /\ CASE n.k \in {"bin", "cbin"} ->
            /\ Len(n.c) = 2 /\ Lv(n, CL) > 0
            /\ Lv(n.c[1], CL) >= Lv(n, CL)        \* left operand: same level or tighter
            /\ Lv(n.c[2], CL) > Lv(n, CL)         \* right operand: strictly tighter (left assoc.)
       [] n.k \in {"asg", "casg"} -> IsTarget(n.c[1]) /\ Lv(n.c[2], CL) >= ES_ASSIGN
       [] n.k = "un" -> /\ Lv(n.c[1], CL) >= ES_UNARY
                        /\ (n.op \in {"++", "--"} => IsTarget(n.c[1]))
       [] n.k = "cun" -> Lv(n.c[1], CL) >= ES_UNARY
       [] n.k = "post" -> Lv(n.c[1], CL) >= ES_LHS /\ IsTarget(n.c[1])
       [] n.k = "cpost" -> Lv(n.c[1], CL) >= ES_LHS
       [] n.k = "call" -> /\ Lv(n.c[1], CL) >= ES_LHS
                          /\ \A j \in 2..Len(n.c) : Lv(n.c[j], CL) >= ES_ASSIGN
       [] n.k = "mem" -> Lv(n.c[1], CL) >= ES_LHS /\ n.c[2].k = "id"
       [] n.k = "idx" -> Lv(n.c[1], CL) >= ES_LHS
       [] OTHER -> TRUE
  /\ \A j \in 1..Len(n.c) : IsNilNode(n.c[j]) \/ WellFormedES(n.c[j], CL)

---------------------------------------------------------------------------
(* Tokens of the reference side: [ty, lit, nl] plus renderer marks:        *)
(*   nonl  a line break in front of this token would change the program    *)
(*         (restricted productions: after `return`, before postfix ++/--)  *)
(*   sb    first token of a statement that follows another in a list       *)
(*   opt   a statement-terminating `;` (may be left to ASI)                *)
Tk(ty, lit) == [ty |-> ty, lit |-> lit, nl |-> FALSE, nonl |-> FALSE, sb |-> FALSE, opt |-> FALSE, bc |-> FALSE]
Kw(ty) == Tk(ty, "")
MarkFirst(ts, f) == IF Len(ts) = 0 THEN ts ELSE [ts EXCEPT ![1] = [@ EXCEPT ![f] = TRUE]]

RECURSIVE RenderE(_, _, _, _), RenderList(_, _, _), RenderS(_, _, _), RenderSeq(_, _, _, _), RenderObj(_, _, _)

Paren(ts) == <<Kw("LPAREN")>> \o ts \o <<Kw("RPAREN")>>

\* expression n in a position that requires level >= min; red: also parenthesise every
\* non-primary operand (redundant parentheses)
RenderE(n, min, red, CL) ==
  LET lv == Lv(n, CL)
      body ==
        CASE n.k = "id" -> <<Tk("IDENT", n.op)>>
          [] n.k = "num" -> <<Tk("INT", n.op)>>
          [] n.k = "flt" -> <<Tk("FLOAT", n.op)>>
          [] n.k = "str" -> <<Tk("STRING", n.op)>>
          [] n.k = "raw" -> <<Tk("RAW_STRING", n.op)>>
          [] n.k = "bool" -> <<Kw(IF n.op = "true" THEN "TRUE" ELSE "FALSE")>>
          [] n.k = "null" -> <<Kw("NULL")>>
          [] n.k = "grp" -> Paren(RenderE(n.c[1], 1, FALSE, CL))
          [] n.k \in {"bin", "cbin"} ->
               RenderE(n.c[1], lv, red, CL) \o <<Tk(OpTy(n.op), n.op)>> \o RenderE(n.c[2], lv + 1, red, CL)
          [] n.k \in {"asg", "casg"} ->
               RenderE(n.c[1], ES_LHS, FALSE, CL) \o <<Tk(OpTy(n.op), n.op)>> \o RenderE(n.c[2], ES_ASSIGN, red, CL)
          [] n.k \in {"un", "cun"} -> <<Tk(OpTy(n.op), n.op)>> \o RenderE(n.c[1], ES_UNARY, red /\ n.op \notin {"++", "--"}, CL)
          [] n.k = "post" -> RenderE(n.c[1], ES_LHS, FALSE, CL) \o <<[Tk(OpTy(n.op), n.op) EXCEPT !.nonl = TRUE]>>
          [] n.k = "cpost" -> RenderE(n.c[1], ES_LHS, FALSE, CL) \o <<Tk(OpTy(n.op), n.op)>>
          [] n.k = "call" ->
               RenderE(n.c[1], ES_LHS, FALSE, CL) \o <<Kw("LPAREN")>> \o RenderList(SubSeq(n.c, 2, Len(n.c)), red, CL) \o <<Kw("RPAREN")>>
          [] n.k = "mem" -> RenderE(n.c[1], ES_LHS, FALSE, CL) \o <<Kw("DOT")>> \o RenderE(n.c[2], ES_PRIMARY, FALSE, CL)
          [] n.k = "idx" ->
               RenderE(n.c[1], ES_LHS, FALSE, CL) \o <<Kw("LBRACKET")>> \o RenderE(n.c[2], 1, red, CL) \o <<Kw("RBRACKET")>>
          [] n.k = "arr" -> <<Kw("LBRACKET")>> \o RenderList(n.c, red, CL) \o <<Kw("RBRACKET")>>
          [] n.k = "obj" -> <<Kw("LBRACE")>> \o RenderObj(n.c, red, CL) \o <<Kw("RBRACE")>>
          [] n.k = "fn" ->
               <<Kw("FUNCTION")>> \o (IF IsNilNode(n.c[1]) THEN <<>> ELSE <<Tk("IDENT", n.c[1].op)>>)
               \o <<Kw("LPAREN")>> \o RenderList(n.c[2].c, FALSE, CL) \o <<Kw("RPAREN")>> \o RenderS(n.c[3], FALSE, CL)
          [] n.k = "lete" ->
               <<Kw("LET"), Tk("IDENT", n.c[1].op)>>
               \o (IF IsNilNode(n.c[2]) THEN <<>> ELSE <<Kw("ASSIGN")>> \o RenderE(n.c[2], ES_ASSIGN, red, CL))
  IN IF lv < min \/ (red /\ lv < ES_PRIMARY /\ n.k # "lete") THEN Paren(body) ELSE body

RenderList(es, red, CL) ==
  IF Len(es) = 0 THEN <<>>
  ELSE RenderE(es[1], ES_ASSIGN, red, CL)
       \o (IF Len(es) = 1 THEN <<>> ELSE <<Kw("COMMA")>> \o RenderList(Tail(es), red, CL))

RenderObj(kv, red, CL) ==
  IF Len(kv) = 0 THEN <<>>
  ELSE RenderE(kv[1], ES_PRIMARY, FALSE, CL) \o <<Kw("COLON")>> \o RenderE(kv[2], ES_ASSIGN, red, CL)
       \o (IF Len(kv) = 2 THEN <<>> ELSE <<Kw("COMMA")>> \o RenderObj(SubSeq(kv, 3, Len(kv)), red, CL))

Semi == [Kw("SEMICOLON") EXCEPT !.opt = TRUE]
\* tokens that must not start an expression statement (they would start another construct)
StartsOtherConstruct(ts) == Len(ts) > 0 /\ ts[1].ty \in {"FUNCTION", "LBRACE", "LET"}

\* statement s; red: redundant parentheses.  Terminating `;` is always emitted (marked
\* opt); layouts drop it where ASI applies.
RenderS(s, red, CL) ==
  LET r == red IN
  CASE s.k = "expr" -> RenderE(s.c[1], 1, r, CL) \o <<Semi>>
    [] s.k = "let" ->
         <<Kw("LET"), Tk("IDENT", s.c[1].op)>>
         \o (IF IsNilNode(s.c[2]) THEN <<>> ELSE <<Kw("ASSIGN")>> \o RenderE(s.c[2], ES_ASSIGN, r, CL)) \o <<Semi>>
    [] s.k = "ret" ->
         <<Kw("RETURN")>> \o (IF IsNilNode(s.c[1]) THEN <<>> ELSE MarkFirst(RenderE(s.c[1], 1, r, CL), "nonl")) \o <<Semi>>
    [] s.k = "blk" -> <<Kw("LBRACE")>> \o RenderSeq(s.c, 1, red, CL) \o <<[Kw("RBRACE") EXCEPT !.bc = TRUE]>>
    [] s.k = "fdecl" ->
         <<Kw("FUNCTION"), Tk("IDENT", s.c[1].op), Kw("LPAREN")>> \o RenderList(s.c[2].c, FALSE, CL)
         \o <<Kw("RPAREN")>> \o RenderS(s.c[3], red, CL)
    [] s.k = "if" ->
         <<Kw("IF"), Kw("LPAREN")>> \o RenderE(s.c[1], 1, r, CL) \o <<Kw("RPAREN")>> \o RenderS(s.c[2], red, CL)
         \o (IF IsNilNode(s.c[3]) THEN <<>> ELSE <<Kw("ELSE")>> \o RenderS(s.c[3], red, CL))
    [] s.k = "while" ->
         <<Kw("WHILE"), Kw("LPAREN")>> \o RenderE(s.c[1], 1, r, CL) \o <<Kw("RPAREN")>> \o RenderS(s.c[2], red, CL)
    [] s.k = "for" ->
         <<Kw("FOR"), Kw("LPAREN")>>
         \o (IF IsNilNode(s.c[1]) THEN <<>> ELSE RenderE(s.c[1], 1, r, CL)) \o <<Kw("SEMICOLON")>>
         \o (IF IsNilNode(s.c[2]) THEN <<>> ELSE RenderE(s.c[2], 1, r, CL)) \o <<Kw("SEMICOLON")>>
         \o (IF IsNilNode(s.c[3]) THEN <<>> ELSE RenderE(s.c[3], 1, r, CL)) \o <<Kw("RPAREN")>>
         \o RenderS(s.c[4], red, CL)

RenderSeq(ss, j, red, CL) ==
  IF j > Len(ss) THEN <<>>
  ELSE (IF j = 1 THEN RenderS(ss[j], red, CL) ELSE MarkFirst(RenderS(ss[j], red, CL), "sb"))
       \o RenderSeq(ss, j + 1, red, CL)

RenderProg(p, red, CL) == RenderSeq(p.c, 1, red, CL)

\* A rendered program is inside the subset only when no expression statement starts with a token
\* that would start a declaration / block / let statement instead.
RECURSIVE StmtStartsOK(_, _)
StmtStartsOK(n, CL) ==
  /\ (n.k = "expr" => ~StartsOtherConstruct(RenderE(n.c[1], 1, FALSE, CL)))
  /\ \A j \in 1..Len(n.c) : IsNilNode(n.c[j]) \/ StmtStartsOK(n.c[j], CL)

---------------------------------------------------------------------------
(* Layouts.  sep: 1 = `;` and a space, 2 = line break only (ASI), 3 = `;` and a line break.      *)
(* brk: set of token indices that get a line break in front (only where ~nonl).                 *)
\* tokens in front of which a line break does NOT end the previous statement in ECMAScript
\* (the statement simply continues), so "line break only" cannot separate there
ContinuesAcrossNewline(ty) ==
  ty \in {"LPAREN", "LBRACKET", "MINUS", "PLUS", "RAW_STRING", "DOT", "ASSIGN", "PLUS_ASSIGN", "MINUS_ASSIGN",
          "MULTIPLY", "DIVIDE", "MODULO", "EQ", "NOT_EQ", "LT", "GT", "LTE", "GTE", "AND", "OR", "COMMA"}

\* can the opt `;` at position j be dropped under separator mode sep?  (next token decides)
SepOK(ts, sep) ==
  sep # 2 \/ \A j \in 1..Len(ts) :
     (ts[j].opt /\ j < Len(ts)) =>
        LET nx == ts[j + 1] IN
        \/ nx.ty = "RBRACE"
        \/ nx.ty = "ELSE"                                \* `b \n else` - ASI before the offending token
        \/ ~ContinuesAcrossNewline(nx.ty) /\ ~nx.nonl

RECURSIVE LayoutFrom(_, _, _, _)
LayoutFrom(ts, j, sep, brk) ==
  IF j > Len(ts) THEN <<>>
  ELSE LET t     == ts[j]
           prevOptDropped == sep = 2 /\ j > 1 /\ ts[j - 1].opt
           afterSemiNl    == sep = 3 /\ j > 1 /\ ts[j - 1].opt
           nlHere == \/ j \in brk /\ ~t.nonl /\ j > 1
                     \/ (prevOptDropped /\ t.ty # "RBRACE") \/ afterSemiNl
                     \/ (sep \in {2, 3} /\ t.sb)
       IN IF sep = 2 /\ t.opt THEN LayoutFrom(ts, j + 1, sep, brk)
          ELSE <<[ty |-> t.ty, lit |-> t.lit, nl |-> nlHere, ok |-> TRUE]>> \o LayoutFrom(ts, j + 1, sep, brk)

\* like SepOK, but a statement may also begin with `(` or `[` after a line break (smart-semicolon
\* mode cuts there)
SepOKSmart(ts) ==
  \A j \in 1..Len(ts) :
     (ts[j].opt /\ j < Len(ts)) =>
        LET nx == ts[j + 1] IN
        \/ nx.ty \in {"RBRACE", "ELSE", "LPAREN", "LBRACKET"}
        \/ ~ContinuesAcrossNewline(nx.ty) /\ ~nx.nonl

\* the laid-out token list, closed by EOF
Layout(ts, sep, brk) ==
  LET body == LayoutFrom(ts, 1, sep, brk)
  IN body \o <<[ty |-> "EOF", lit |-> "", nl |-> (sep = 3 /\ Len(ts) > 0 /\ ts[Len(ts)].opt), ok |-> TRUE]>>

---------------------------------------------------------------------------
(* The declarative property of C02 on an observed (token list, tree):       *)
(*   Yield    the in-order yield of the tree is the token list, up to       *)
(*            statement-terminating semicolons                              *)
(*   WF       every operator node is well-formed w.r.t. the ES levels       *)
(*   ASI      every statement end without `;` is one where ES inserts one,  *)
(*            and the restricted productions are honoured                   *)
\* yield of the real tree: like rendering with no added parentheses (grouping nodes are explicit)
RECURSIVE YieldE(_), YieldList(_), YieldObj(_), YieldS(_), YieldSeq(_, _)
YieldE(n) ==
  CASE n.k = "id" -> <<Tk("IDENT", n.op)>>
    [] n.k = "num" -> <<Tk("INT", n.op)>>
    [] n.k = "flt" -> <<Tk("FLOAT", n.op)>>
    [] n.k = "str" -> <<Tk("STRING", n.op)>>
    [] n.k = "raw" -> <<Tk("RAW_STRING", n.op)>>
    [] n.k = "bool" -> <<Kw(IF n.op = "true" THEN "TRUE" ELSE "FALSE")>>
    [] n.k = "null" -> <<Kw("NULL")>>
    [] n.k = "grp" -> Paren(YieldE(n.c[1]))
    [] n.k \in {"bin", "cbin", "asg", "casg"} -> YieldE(n.c[1]) \o <<Tk(OpTy(n.op), n.op)>> \o YieldE(n.c[2])
    [] n.k \in {"un", "cun"} -> <<Tk(OpTy(n.op), n.op)>> \o YieldE(n.c[1])
    [] n.k \in {"post", "cpost"} -> YieldE(n.c[1]) \o <<[Tk(OpTy(n.op), n.op) EXCEPT !.nonl = (n.k = "post")]>>
    [] n.k = "call" -> YieldE(n.c[1]) \o <<Kw("LPAREN")>> \o YieldList(SubSeq(n.c, 2, Len(n.c))) \o <<Kw("RPAREN")>>
    [] n.k = "mem" -> YieldE(n.c[1]) \o <<Kw("DOT")>> \o YieldE(n.c[2])
    [] n.k = "idx" -> YieldE(n.c[1]) \o <<Kw("LBRACKET")>> \o YieldE(n.c[2]) \o <<Kw("RBRACKET")>>
    [] n.k = "arr" -> <<Kw("LBRACKET")>> \o YieldList(n.c) \o <<Kw("RBRACKET")>>
    [] n.k = "obj" -> <<Kw("LBRACE")>> \o YieldObj(n.c) \o <<Kw("RBRACE")>>
    [] n.k = "fn" ->
         <<Kw("FUNCTION")>> \o (IF IsNilNode(n.c[1]) THEN <<>> ELSE <<Tk("IDENT", n.c[1].op)>>)
         \o <<Kw("LPAREN")>> \o YieldList(n.c[2].c) \o <<Kw("RPAREN")>> \o YieldS(n.c[3])
    [] n.k = "lete" ->
         <<Kw("LET"), Tk("IDENT", n.c[1].op)>>
         \o (IF IsNilNode(n.c[2]) THEN <<>> ELSE <<Kw("ASSIGN")>> \o YieldE(n.c[2]))
    [] OTHER -> <<Tk("?", n.k)>>
YieldList(es) ==
  IF Len(es) = 0 THEN <<>>
  ELSE YieldE(es[1]) \o (IF Len(es) = 1 THEN <<>> ELSE <<Kw("COMMA")>> \o YieldList(Tail(es)))
YieldObj(kv) ==
  IF Len(kv) = 0 THEN <<>>
  ELSE YieldE(kv[1]) \o <<Kw("COLON")>> \o YieldE(kv[2])
       \o (IF Len(kv) = 2 THEN <<>> ELSE <<Kw("COMMA")>> \o YieldObj(SubSeq(kv, 3, Len(kv))))
YieldS(s) ==
  CASE s.k = "expr" -> YieldE(s.c[1]) \o <<Semi>>
    [] s.k = "let" ->
         <<Kw("LET"), Tk("IDENT", s.c[1].op)>>
         \o (IF IsNilNode(s.c[2]) THEN <<>> ELSE <<Kw("ASSIGN")>> \o YieldE(s.c[2])) \o <<Semi>>
    [] s.k = "ret" -> <<Kw("RETURN")>> \o (IF IsNilNode(s.c[1]) THEN <<>> ELSE MarkFirst(YieldE(s.c[1]), "nonl")) \o <<Semi>>
    [] s.k = "blk" -> <<Kw("LBRACE")>> \o YieldSeq(s.c, 1) \o <<Kw("RBRACE")>>
    [] s.k = "fdecl" ->
         <<Kw("FUNCTION"), Tk("IDENT", s.c[1].op), Kw("LPAREN")>> \o YieldList(s.c[2].c) \o <<Kw("RPAREN")>> \o YieldS(s.c[3])
    [] s.k = "if" ->
         <<Kw("IF"), Kw("LPAREN")>> \o YieldE(s.c[1]) \o <<Kw("RPAREN")>> \o YieldS(s.c[2])
         \o (IF IsNilNode(s.c[3]) THEN <<>> ELSE <<Kw("ELSE")>> \o YieldS(s.c[3]))
    [] s.k = "while" -> <<Kw("WHILE"), Kw("LPAREN")>> \o YieldE(s.c[1]) \o <<Kw("RPAREN")>> \o YieldS(s.c[2])
    [] s.k = "for" ->
         <<Kw("FOR"), Kw("LPAREN")>>
         \o (IF IsNilNode(s.c[1]) THEN <<>> ELSE YieldE(s.c[1])) \o <<Kw("SEMICOLON")>>
         \o (IF IsNilNode(s.c[2]) THEN <<>> ELSE YieldE(s.c[2])) \o <<Kw("SEMICOLON")>>
         \o (IF IsNilNode(s.c[3]) THEN <<>> ELSE YieldE(s.c[3])) \o <<Kw("RPAREN")>> \o YieldS(s.c[4])
    [] OTHER -> <<Tk("?", s.k)>>
YieldSeq(ss, j) == IF j > Len(ss) THEN <<>> ELSE YieldS(ss[j]) \o YieldSeq(ss, j + 1)

\* Match the yield y (with opt `;` marks and nonl marks) against the observed tokens toks
\* (last one EOF): returns TRUE iff they agree and every virtual semicolon is justified by ES.
SameTok(a, b) == a.ty = b.ty /\ (a.ty \in {"IDENT", "INT", "FLOAT", "STRING", "RAW_STRING"} => a.lit = b.lit)
RECURSIVE MatchYield(_, _, _, _)
MatchYield(y, i, toks, j) ==
  IF i > Len(y) THEN toks[j].ty = "EOF"
  ELSE IF y[i].opt THEN
         IF toks[j].ty = "SEMICOLON" THEN MatchYield(y, i + 1, toks, j + 1)
         ELSE \* virtual semicolon in front of toks[j]: ES rule 1 (offending token)
              /\ \/ toks[j].ty \in {"EOF", "RBRACE"}
                 \/ toks[j].nl /\ ~ContinuesAcrossNewline(toks[j].ty)
                 \/ toks[j].nl /\ toks[j].ty \in {"INCREMENT", "DECREMENT"}
              /\ MatchYield(y, i + 1, toks, j)
  ELSE /\ j <= Len(toks) /\ SameTok(y[i], toks[j])
       /\ (y[i].nonl => ~toks[j].nl)         \* restricted productions not crossed
       /\ MatchYield(y, i + 1, toks, j + 1)

C02_Yield(toks, tree) == MatchYield(YieldSeq(tree.c, 1), 1, toks, 1)
C02_WF(tree) == WellFormedES(tree, <<>>)
C02_Failures(toks, res, expect) ==
  (IF Len(res.errors) = 0 /\ ~res.err THEN {} ELSE {"subset_program_rejected"})
  \cup (IF Strip(res.tree) = expect THEN {} ELSE {"tree_differs_from_ecmascript"})
  \cup (IF Len(res.errors) > 0 \/ (C02_Yield(toks, res.tree) /\ C02_WF(res.tree)) THEN {} ELSE {"yield_or_levels"})

---------------------------------------------------------------------------
(* The mode contract of C13 on REAL results.  rec = [kind, want, toks (real tokens of the   *)
(* input), r00, r10, r01, r11 (strict/tolerant x default/smart: [tree, nerr, err]), ra      *)
(* (default-mode result on the input with `;` put in front of every line-leading `(`/`[`)]  *)
C13_LLB(toks) == \E j \in 1..Len(toks) : toks[j].nl /\ toks[j].ty \in {"LPAREN", "LBRACKET"}
SameRes(a, b) == a.tree = b.tree /\ a.nerr = b.nerr /\ a.err = b.err
C13_Failures(rec) ==
  LET llb == C13_LLB(rec.toks)
      strictOK == rec.r00.nerr = 0 /\ ~rec.r00.err
  IN
  \* (a) on every program strict mode accepts, tolerant mode returns the identical tree, no errors
  (IF strictOK => SameRes(rec.r10, rec.r00) THEN {} ELSE {"tolerant_differs_on_accepted_program"})
  \* (c) smart = default unless a `(` / `[` starts a line ...
  \cup (IF llb \/ (SameRes(rec.r01, rec.r00) /\ SameRes(rec.r11, rec.r10)) THEN {} ELSE {"smart_differs_without_line_leading_bracket"})
  \*     ... and then exactly as if a semicolon preceded it
  \cup (IF ~llb \/ rec.ra.nerr > 0 \/ rec.ra.err \/ SameRes(rec.r01, rec.ra) THEN {} ELSE {"smart_is_not_default_with_semicolon"})
  \cup (IF rec.kind = "smart" => (rec.r01.nerr = 0 /\ ~rec.r01.err /\ Strip(rec.r01.tree) = rec.want)
        THEN {} ELSE {"smart_loses_line_leading_bracket_statement"})
  \* (b) tolerant mode accepts, keeping every complete statement, fused statements and open blocks
  \cup (IF (rec.kind \in {"fuse", "open"} /\ ~strictOK) =>
            (rec.r10.nerr = 0 /\ ~rec.r10.err /\ Strip(rec.r10.tree) = rec.want
             /\ (llb \/ (rec.r11.nerr = 0 /\ Strip(rec.r11.tree) = rec.want)))
        THEN {} ELSE {"tolerant_" \o rec.kind})
  \* a subset program is accepted by strict mode with the ECMAScript tree (C02, repeated here so
  \* that the mode comparison is not vacuous)
  \cup (IF rec.kind = "same" => (strictOK /\ Strip(rec.r00.tree) = rec.want) THEN {} ELSE {"strict_rejects_subset_program"})

---------------------------------------------------------------------------
(* C12 on a REAL strict-mode result for a corrupted text that reference parsers reject:      *)
(* rec = [intact (index into toks of the last intact token before the corruption, 0: none), *)
(*        toks (real tokens with sl, sc), errors (real, with sl, sc)]                        *)
PosGE(l1, c1, l2, c2) == l1 > l2 \/ (l1 = l2 /\ c1 >= c2)
C12_Failures(rec) ==
  IF Len(rec.errors) = 0 THEN {"malformed_program_accepted"}
  ELSE IF rec.intact = 0 \/ rec.intact > Len(rec.toks) THEN {}
  ELSE LET e == rec.errors[1]
           k == rec.toks[rec.intact]
       IN IF PosGE(e.sl, e.sc, k.sl, k.sc) THEN {} ELSE {"first_error_before_last_intact_token"}

---------------------------------------------------------------------------
(***************************************************************************)
(* Operator-precedence well-formedness on the DOCUMENTED level scale of    *)
(* xjs (LOWEST = 1 .. MEMBER = 12), for trees that mix built-in operators  *)
(* with registered ones.  CL: custom infix operator name -> level.         *)
(* A registered prefix operator has the level of the built-in unary        *)
(* operators, a registered postfix operator that of a call.                *)
(* Declarative (no parsing algorithm): for every operator node, nothing on *)
(* the facing spine of an operand may bind looser than the node itself.    *)
(***************************************************************************)
XFix(n) ==
  CASE n.k \in {"bin", "cbin", "asg", "casg", "mem"} -> "infix"
    [] n.k \in {"un", "cun"} -> "prefix"
    [] n.k \in {"post", "cpost", "call", "idx"} -> "postfix"
    [] OTHER -> "atom"
XLevel(n, CL) ==
  CASE n.k = "bin" -> ESBinLevel(n.op)
    [] n.k \in {"asg", "casg"} -> 2
    [] n.k \in {"un", "cun"} -> 9
    [] n.k = "post" -> 10
    [] n.k \in {"call", "cpost"} -> 11
    [] n.k \in {"idx", "mem"} -> 12
    [] n.k = "cbin" -> CL[n.op]
    [] OTHER -> 99
RECURSIVE RSpine(_), LSpine(_)
\* operator nodes whose last token is the last token of x / whose first token is its first
RSpine(x) == IF IsNilNode(x) THEN {}
             ELSE IF XFix(x) = "infix" THEN {x} \cup RSpine(x.c[2])
             ELSE IF XFix(x) = "prefix" THEN {x} \cup RSpine(x.c[1]) ELSE {}
LSpine(x) == IF IsNilNode(x) THEN {}
             ELSE IF XFix(x) \in {"infix", "postfix"} THEN {x} \cup LSpine(x.c[1]) ELSE {}
RECURSIVE WFX(_, _)
WFX(n, CL) ==
  /\ LET p == XLevel(n, CL) IN
     CASE n.k \in {"bin", "cbin", "mem"} ->
            /\ \A y \in RSpine(n.c[1]) : XLevel(y, CL) >= p
            /\ \A y \in LSpine(n.c[2]) : XLevel(y, CL) > p
       [] n.k \in {"asg", "casg"} ->
            /\ \A y \in RSpine(n.c[1]) : XLevel(y, CL) > p
            /\ \A y \in LSpine(n.c[2]) : XLevel(y, CL) >= p
       [] XFix(n) = "prefix" -> \A y \in LSpine(n.c[1]) : XLevel(y, CL) > p
       [] XFix(n) = "postfix" -> \A y \in RSpine(n.c[1]) : XLevel(y, CL) >= p
       [] OTHER -> TRUE
  /\ \A j \in 1..Len(n.c) : IsNilNode(n.c[j]) \/ WFX(n.c[j], CL)

\* C05 (grouping part) on a REAL result for an operator string: rec = [toks, res = [tree, nerr,
\* err], cl (custom infix levels), lowest (a registered infix operator of level 1 occurs)]
C05A_Failures(rec) ==
  IF rec.lowest THEN (IF rec.res.nerr > 0 THEN {} ELSE {"level_1_operator_not_reported"})
  ELSE (IF rec.res.nerr = 0 /\ ~rec.res.err THEN {} ELSE {"operator_string_rejected"})
       \cup (IF rec.res.nerr > 0 \/ C02_Yield(rec.toks, rec.res.tree) THEN {} ELSE {"yield"})
       \cup (IF rec.res.nerr > 0 \/ WFX(rec.res.tree, rec.cl) THEN {} ELSE {"grouping_not_by_level"})

\* roles the built-in grammar already gives to built-in tokens (seeds of parser/builder.go)
BuiltinPrefixRole == BuiltinPrefix
BuiltinInfixRole == DOMAIN BuiltinPrec
BuiltinPostfixRole == {"INCREMENT", "DECREMENT"}
---------------------------------------------------------------------------
(* The declarative registration clause of C05 on an OBSERVED history: h is a sequence of     *)
(* [op, a, l, res] with the REAL replies (ids for "tok", 0 accepted / -1 refused otherwise);  *)
(* builtinIds: the numeric ids of the built-in token types.                                   *)
RoleTaken(h, k) ==
  LET e == h[k]
      earlier == \E j \in 1..(k - 1) : h[j].op = e.op /\ h[j].a = e.a /\ h[j].res = 0
  IN CASE e.op = "prefix" -> e.a \in BuiltinPrefixRole \/ earlier
       [] e.op = "infix" -> e.a \in BuiltinInfixRole \/ earlier
       [] e.op = "postfix" -> e.a \in BuiltinPostfixRole \/ earlier
C05B_Failures(h, builtinIds) ==
  LET toks == {k \in 1..Len(h) : h[k].op = "tok"}
      regs == {k \in 1..Len(h) : h[k].op # "tok"}
  IN (IF \A j, k \in toks : (h[j].a = h[k].a) <=> (h[j].res = h[k].res) THEN {} ELSE {"token_id_not_stable_or_not_distinct"})
     \cup (IF \A k \in toks : h[k].res \notin builtinIds THEN {} ELSE {"token_id_collides_with_builtin"})
     \cup (IF \A k \in regs : (h[k].res = -1) <=> RoleTaken(h, k) THEN {} ELSE {"duplicate_role_not_refused_or_free_role_refused"})
=============================================================================
