SPECIFICATION Spec
CONSTANTS
  Depth = 2
  BinDepth = 3
  Contexts = {1, 2, 3, 4, 7, 8, 9}
  DeepContexts = {1}
  Export = TRUE
  StmtDepth = 2
INVARIANT Inv
CHECK_DEADLOCK FALSE
