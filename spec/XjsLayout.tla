------------------------------ MODULE XjsLayout ------------------------------
(***************************************************************************)
(* Declarative layout properties of compiled text, evaluated on REAL       *)
(* outputs (C06: pretty printing changes layout only and is stable; C15:   *)
(* statement-level comments and blank lines survive pretty printing,       *)
(* compact output has none), and the conformance of recorded code-writer   *)
(* operation traces with the XjsWriter machine.                            *)
(* Tokens of a text: [ty, lit, sl, sc, el, ec, lead] from the real lexer.  *)
(***************************************************************************)
EXTENDS XjsGrammar, XjsWriter, FiniteSets

(* ---- text helpers ---- *)
Lines(code) == SplitLF(code, <<>>)
RECURSIVE StripLeadWS(_)
StripLeadWS(s) == IF s # <<>> /\ Head(s) \in {32, 9} THEN StripLeadWS(Tail(s)) ELSE s
RECURSIVE LineStartsFrom(_, _, _)
\* byte offsets (0-based) at which lines start
LineStartsFrom(code, i, acc) ==
  IF i > Len(code) THEN acc
  ELSE LineStartsFrom(code, i + 1, IF code[i] = 10 THEN Append(acc, i) ELSE acc)
LineStarts(code) == LineStartsFrom(code, 1, <<0>>)
\* the text without the bytes at the given (0-based) offsets
DropOffsets(code, offs, i) == SelectSeq([j \in 1..Len(code) |-> IF (j - 1) \in offs THEN -1 ELSE code[j]], LAMBDA b : b # -1)

(* ---- token helpers ---- *)
\* indices of the `;` tokens inside for ( ... ) headers
RECURSIVE ForSemis(_, _, _, _)
ForSemis(toks, j, depth, acc) ==      \* depth > 0: inside a for header at that parenthesis depth
  IF j > Len(toks) THEN acc
  ELSE LET ty == toks[j].ty IN
       IF depth = 0 THEN
         IF ty = "FOR" /\ j < Len(toks) /\ toks[j + 1].ty = "LPAREN" THEN ForSemis(toks, j + 2, 1, acc)
         ELSE ForSemis(toks, j + 1, 0, acc)
       ELSE IF ty = "LPAREN" THEN ForSemis(toks, j + 1, depth + 1, acc)
       ELSE IF ty = "RPAREN" THEN ForSemis(toks, j + 1, depth - 1, acc)
       ELSE IF ty = "SEMICOLON" /\ depth = 1 THEN ForSemis(toks, j + 1, depth, acc \cup {j})
       ELSE ForSemis(toks, j + 1, depth, acc)
TerminatorIdx(toks) == {j \in 1..Len(toks) : toks[j].ty = "SEMICOLON"} \ ForSemis(toks, 1, 0, {})
\* the text with every statement-terminating `;` deleted
WithoutTerminators(code, toks) ==
  LET ls == LineStarts(code)
      offs == {ls[toks[j].sl + 1] + toks[j].sc : j \in TerminatorIdx(toks)}
  IN DropOffsets(code, offs, 1)
\* non-`;` tokens (pretty printing changes no other token)
NS(toks) == SelectSeq(toks, LAMBDA k : k.ty # "SEMICOLON")
Proj2(toks) == [j \in 1..Len(toks) |-> <<toks[j].ty, toks[j].lit>>]

(* ---- C06 ---- *)
\* o: outputs of one program by configuration name (records [code, nerr, tree, code2, otoks])
PrettyNames == {"pretty:default:semi", "pretty:default:nosemi", "pretty:tab:semi", "pretty:tab:nosemi",
                "pretty:0:semi", "pretty:0:nosemi", "pretty:4:nosemi", "pretty:4:semi", "pretty:8:semi", "pretty:1:nosemi"}
SemiOf(name) == name \in {"pretty:default:semi", "pretty:tab:semi", "pretty:0:semi", "pretty:4:semi", "pretty:8:semi"}
UnitOf(name) == CASE name \in {"pretty:default:semi", "pretty:default:nosemi"} -> "2"
                  [] name \in {"pretty:tab:semi", "pretty:tab:nosemi"} -> "t"
                  [] name \in {"pretty:0:semi", "pretty:0:nosemi"} -> "0" [] name \in {"pretty:4:nosemi", "pretty:4:semi"} -> "4"
                  [] name = "pretty:8:semi" -> "8" [] name = "pretty:1:nosemi" -> "1"
\* line i (0-based) starts inside a token that spans several lines (multi-line literal)
InsideToken(toks, i) == \E j \in 1..Len(toks) : toks[j].sl < i /\ i <= toks[j].el
SameUpToIndent(a, b) ==
  LET la == Lines(a.code)
      lb == Lines(b.code)
  IN /\ Len(la) = Len(lb)
     /\ \A i \in 1..Len(la) :
          IF InsideToken(a.otoks, i - 1) \/ InsideToken(b.otoks, i - 1) THEN la[i] = lb[i]
          ELSE StripLeadWS(la[i]) = StripLeadWS(lb[i])
C06_Failures(rec) ==
  LET names == {n \in DOMAIN rec.outs : n \in PrettyNames}
      o == rec.outs
      ok(n) == o[n].nerr = 0
  IN
  (IF \A n \in names : ok(n) /\ Strip(o[n].tree) = Strip(o["compact"].tree) THEN {} ELSE {"pretty_output_parses_to_another_tree"})
  \cup (IF \A n \in names : ~ok(n) \/ o[n].code2 = o[n].code THEN {} ELSE {"formatting_again_changes_the_output"})
  \cup (IF \A m, n \in names : (ok(m) /\ ok(n) /\ SemiOf(m) = SemiOf(n)) => SameUpToIndent(o[m], o[n])
        THEN {} ELSE {"indent_option_changes_more_than_leading_whitespace"})
  \cup (IF \A m, n \in names : (ok(m) /\ ok(n) /\ UnitOf(m) = UnitOf(n) /\ SemiOf(m) /\ ~SemiOf(n)) =>
              WithoutTerminators(o[m].code, o[m].otoks) = WithoutTerminators(o[n].code, o[n].otoks)
        THEN {} ELSE {"semicolon_option_changes_more_than_terminators"})

(* ---- C15 ---- *)
\* a token's trivia as comments and blank-line marks: "" entries are line breaks; a line break
\* that follows a line break or a comment is a blank line; runs of blank lines count once
RECURSIVE NormLead(_, _, _, _)
NormLead(lead, i, afterBreak, acc) ==
  IF i > Len(lead) THEN acc
  ELSE IF lead[i] = "" THEN
         (IF afterBreak
          THEN NormLead(lead, i + 1, TRUE, IF acc # <<>> /\ acc[Len(acc)] = "<blank>" THEN acc ELSE Append(acc, "<blank>"))
          ELSE NormLead(lead, i + 1, TRUE, acc))
       ELSE NormLead(lead, i + 1, TRUE, Append(acc, lead[i]))
\* statement-level anchors of the source: first tokens of statements, closing braces of blocks and
\* function bodies, the end of the input - as indices into NS(stoks)
NSIndex(toks, j) == j - Cardinality({i \in 1..j : toks[i].ty = "SEMICOLON"})
Anchors(stree, stoks) ==
  LET reqs == Requests(stree, stoks)
  IN ({NSIndex(stoks, reqs[q].tok) : q \in {x \in 1..Len(reqs) : reqs[x].kind \in {"stmt", "close"}}}
      \cup {NSIndex(stoks, Len(stoks))})
     \cap (1..Len(NS(stoks)))      \* (a tree with statements the reference walk does not know must not break the judge)
RECURSIVE DropLeadingBlanks(_), DropTrailingBlanks(_)
DropLeadingBlanks(w) == IF w # <<>> /\ Head(w) = "<blank>" THEN DropLeadingBlanks(Tail(w)) ELSE w
DropTrailingBlanks(w) == IF w # <<>> /\ w[Len(w)] = "<blank>" THEN DropTrailingBlanks(SubSeq(w, 1, Len(w) - 1)) ELSE w
Comments(lead) == SelectSeq(lead, LAMBDA x : x # "" /\ x # "<blank>")
\* the comments of the anchors a..Len(toks) of a token list, in order
RECURSIVE AnchorComments(_, _, _)
AnchorComments(toks, anchors, a) ==
  IF a > Len(toks) THEN <<>>
  ELSE (IF a \in anchors THEN Comments(toks[a].lead) ELSE <<>>) \o AnchorComments(toks, anchors, a + 1)
C15_Failures(rec) ==
  LET o == rec.outs
      names == {n \in DOMAIN o : n \in PrettyNames /\ o[n].nerr = 0}
      ns == NS(rec.stoks)
      anchors == Anchors(rec.stree, rec.stoks)
      \* at the very start of the input blank lines are not "between statements"
      \* at the start and at the end of the input blank lines are not "between sibling statements":
      \* leading blank marks of the first token and trailing ones of the end-of-input token are dropped
      edge(a, w) == IF a = 1 THEN DropLeadingBlanks(w) ELSE IF a = Len(ns) THEN DropTrailingBlanks(w) ELSE w
      want(a) == edge(a, NormLead(ns[a].lead, 1, a = 1, <<>>))
      nso == [n \in names |-> NS(o[n].otoks)]
      got(n, a) == edge(a, NormLead(nso[n][a].lead, 1, a = 1, <<>>))
      stmtLevelTotal == [a \in anchors |-> Comments(ns[a].lead)]
  IN
  (IF \A n \in names : Len(nso[n]) = Len(ns) /\ Proj2(nso[n]) = Proj2(ns) THEN {} ELSE {"pretty_output_changes_tokens"})
  \cup (IF \A n \in names : Len(nso[n]) # Len(ns) \/ \A a \in anchors : Comments(got(n, a)) = Comments(want(a))
        THEN {} ELSE {"statement_level_comment_lost_moved_or_altered"})
  \cup (IF \A n \in names : Len(nso[n]) # Len(ns) \/ \A a \in anchors : (Comments(got(n, a)) # Comments(want(a))) \/ got(n, a) = want(a)
        THEN {} ELSE {"blank_line_separation_not_kept"})
  \* independent of how the real lexer reads the SOURCE: rec.gcomments are the statement-level comment
  \* texts the generator put into the source text, in order
  \cup (IF "gcomments" \notin DOMAIN rec \/ \A n \in names : Len(nso[n]) # Len(ns) \/ AnchorComments(nso[n], anchors, 1) = rec.gcomments
        THEN {} ELSE {"comment_of_the_source_text_not_in_pretty_output"})
  \cup (IF \A j \in 1..Len(o["compact"].otoks) : Comments(o["compact"].otoks[j].lead) = <<>> THEN {} ELSE {"compact_output_contains_comment"})
  \* the same program without its comments compiles to the same compact code and the same pretty tokens
  \cup (IF "plain" \notin DOMAIN rec \/ rec.plain.compact = o["compact"].code THEN {} ELSE {"comment_alters_compact_code"})
  \cup (IF "plain" \notin DOMAIN rec \/ \A n \in names : n \notin DOMAIN rec.plain.ptoks \/ rec.plain.ptoks[n] = Proj2(NS(o[n].otoks))
        THEN {} ELSE {"comment_alters_pretty_code"})

(* ---- writer-trace conformance ---- *)
\* ops: the recorded operations already projected to XjsWriter ops; code: the text Compile returned
WriterConforms(cfg, ops, code) == Finish(Run(W0(cfg), ops, 1)) = code
=============================================================================
