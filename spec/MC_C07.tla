------------------------------ MODULE MC_C07 ------------------------------
(* Literals.  String literals: every body of <= MaxAtoms atoms (plain and   *)
(* non-ASCII characters, the other quote, every kind of escape with         *)
(* boundary values) in both quote styles; backtick strings over their own   *)
(* atoms; numeric literals of all shapes.  The lexer model (XjsLexer)       *)
(* yields the token literal, the printer's re-quoting yields the predicted  *)
(* output literal, and the reference semantics (XjsLiterals: SV / TV) must  *)
(* give the predicted output the value of the source (design level).  Each  *)
(* program `let v = <literal>;print(v);` is exported for the real compiler  *)
(* and a JavaScript engine.                                                 *)
EXTENDS XjsLexer, XjsLiterals, Json

CONSTANTS MaxAtoms, Sweep, Export

VARIABLES kind, q, body
vars == <<kind, q, body>>

Hex2(v) == LET d(x) == IF x < 10 THEN 48 + x ELSE 87 + x IN <<d(v \div 16), d(v % 16)>>
Hex4(v) == Hex2(v \div 256) \o Hex2(v % 256)
StrAtoms(qq) ==
  { <<97>>, <<32>>, <<IF qq = 34 THEN 39 ELSE 34>>, <<195, 169>>, <<240, 159, 152, 128>>, <<226, 128, 168>>,
    <<49>>, <<92, 110>>, <<92, 116>>, <<92, 92>>, <<92, 39>>, <<92, 34>>, <<92, 96>>, <<92, 48>>, <<92, 97>>, <<92, 47>>,
    <<92, 10>>, <<92, 13, 10>>, <<92, 49>>, <<92, 49, 48, 49>>, <<92, 51, 55, 55>> }
  \cup {<<92, 120>> \o Hex2(v) : v \in {0, 10, 34, 39, 49, 65, 92, 96, 127, 128, 233, 255}}
  \cup {<<92, 117>> \o Hex4(v) : v \in {0, 10, 34, 55, 65, 92, 233, 8232, 55296, 55357, 55360, 56319, 56320, 56832, 57343, 65535}}
  \cup {<<92, 117, 123>> \o ds \o <<125>> : ds \in {<<48>>, <<52, 49>>, <<48, 48, 48, 48, 52, 49>>, <<49, 70, 54, 48, 48>>,
                                                   <<49, 48, 70, 70, 70, 70>>, <<68, 56, 48, 48>>, <<50, 50>>, <<48, 48, 48, 48, 48, 48, 52, 49>>}}
RawAtoms == { <<97>>, <<32>>, <<10>>, <<13, 10>>, <<32, 32, 10>>, <<92, 96>>, <<92, 92>>, <<39>>, <<34>>, <<36>>, <<123>>,
              <<92, 110>>, <<92, 120, 52, 49>>, <<92, 117, 48, 48, 52, 49>>, <<195, 169>> }
Numbers == { <<48>>, <<55>>, <<52, 50>>, <<49, 46, 53>>, <<48, 46, 53>>, <<49, 101, 51>>, <<49, 69, 43, 51>>, <<50, 101, 45, 50>>,
             <<49, 46, 53, 101, 49, 48>>, <<48, 120, 49, 70>>, <<48, 88, 102, 70>>, <<48, 98, 49, 48, 49>>, <<48, 66, 49, 49>>,
             <<48, 111, 49, 55>>, <<48, 79, 55>>, <<48, 49, 55>>, <<57, 48, 48, 55, 49, 57, 57, 50, 53, 52, 55, 52, 48, 57, 57, 51>>,
             <<49, 101, 52, 48, 48>>, <<48, 46, 49>>, <<49, 50, 51, 52, 53, 54, 55, 56, 57, 48, 49, 50, 51, 52, 53, 54, 55, 56, 57, 48>>,
             <<48, 56>>, <<49, 46, 48, 48>>, <<48, 120, 102, 102, 102, 102, 102, 102, 102, 102, 102, 102>> }

\* the decimal literal grammar, shape by shape: integer part x fraction (none, bare dot, digits) x exponent
\* (none, with / without sign, without digits); what JavaScript does not accept as source is skipped by the driver
IntParts == {<<48>>, <<55>>, <<52, 50>>, <<49, 48>>}
Fracs == {<<>>, <<46>>, <<46, 53>>, <<46, 48>>, <<46, 50, 53>>}
Exps == {<<>>, <<101, 51>>, <<69, 43, 51>>, <<101, 45, 50>>, <<101>>, <<101, 43>>, <<69, 48>>}
DecimalShapes == {i \o f \o e : i \in IntParts, f \in Fracs, e \in Exps}

\* string literals in property-name position: bodies that look like numbers must stay strings
KeyBodies == {<<49, 101, 51>>, <<48, 120, 49, 48>>, <<48, 49, 48>>, <<48, 48>>, <<97>>, <<49>>, <<49, 46, 48>>, <<92, 120, 51, 49, 101, 51>>}
Init == \/ kind = "str" /\ q \in {34, 39} /\ body = <<>>
        \/ kind = "key" /\ q \in {34, 39} /\ body \in {<<b>> : b \in KeyBodies}
        \/ kind = "raw" /\ q = 96 /\ body = <<>>
        \/ kind = "num" /\ q = 0 /\ body \in {<<n>> : n \in Numbers \cup DecimalShapes}
        \/ kind = "sweepx" /\ q = 34 /\ body \in {<<<<92, 120>> \o Hex2(v)>> : v \in (IF Sweep THEN 0..255 ELSE {})}
        \/ kind = "sweepu" /\ q = 34 /\ body \in {<<<<92, 117>> \o Hex4(v)>> : v \in (IF Sweep THEN 0..65535 ELSE {})}
Next == /\ kind \in {"str", "raw"} /\ Len(body) < MaxAtoms
        /\ \E a \in (IF kind = "str" THEN StrAtoms(q) ELSE RawAtoms) : body' = Append(body, a)
        /\ UNCHANGED <<kind, q>>
Spec == Init /\ [][Next]_vars

RECURSIVE Flat(_)
Flat(s) == IF s = <<>> THEN <<>> ELSE Head(s) \o Flat(Tail(s))
Lit == IF kind = "num" THEN Flat(body) ELSE <<q>> \o Flat(body) \o <<q>>
\* let v = <lit>;print(v);
\* let v = <lit>;print(v);      or, for kind "key":  let v = {<lit>:1};print(v);
Src == IF kind = "key"
       THEN <<108, 101, 116, 32, 118, 32, 61, 32, 123>> \o Lit \o <<58, 49, 125, 59, 112, 114, 105, 110, 116, 40, 118, 41, 59>>
       ELSE <<108, 101, 116, 32, 118, 32, 61, 32>> \o Lit \o <<59, 112, 114, 105, 110, 116, 40, 118, 41, 59>>

\* escapeDoubleQuotes of ast.go (StringLiteral.WriteTo)
RECURSIVE EscDQ(_, _)
EscDQ(v, i) ==
  IF i > Len(v) THEN <<>>
  ELSE IF v[i] = 92 THEN (IF i + 1 <= Len(v) THEN <<92, v[i + 1]>> \o EscDQ(v, i + 2) ELSE <<92>>)
  ELSE IF v[i] = 34 THEN <<92, 34>> \o EscDQ(v, i + 1)
  ELSE <<v[i]>> \o EscDQ(v, i + 1)

\* escapeBackticks of ast.go (MultiStringLiteral.WriteTo)
RECURSIVE EscBT(_, _)
EscBT(v, i) ==
  IF i > Len(v) THEN <<>>
  ELSE IF v[i] = 92 THEN (IF i + 1 <= Len(v) /\ v[i + 1] # 96 THEN <<92, v[i + 1]>> \o EscBT(v, i + 2) ELSE <<92>> \o EscBT(v, i + 1))
  ELSE IF v[i] = 96 THEN <<92, 96>> \o EscBT(v, i + 1)
  ELSE <<v[i]>> \o EscBT(v, i + 1)

Toks == LexAll(Src, 0)
LitTok == Toks[IF kind = "key" THEN 5 ELSE 4]        \* let v = <literal>   /   let v = { <literal>
ModelOut ==
  CASE LitTok.ty = "STRING" -> <<34>> \o EscDQ(LitTok.lit, 1) \o <<34>>
    [] LitTok.ty = "RAW_STRING" -> <<96>> \o EscBT(LitTok.lit, 1) \o <<96>>
    [] OTHER -> LitTok.lit
HasSubst == \E j \in 1..(Len(Flat(body)) - 1) : Flat(body)[j] = 36 /\ Flat(body)[j + 1] = 123
RefValue == IF HasSubst THEN Invalid ELSE IF kind \in {"str", "sweepx", "sweepu", "key"} THEN SV(Flat(body)) ELSE IF kind = "raw" THEN TV(Flat(body)) ELSE <<>>
\* how JavaScript reads a quoted literal text: the body ends at the first unescaped closing quote,
\* which must be the last byte
RECURSIVE CloseAt(_, _, _)
CloseAt(o, i, qq) == IF i > Len(o) THEN 0 ELSE IF o[i] = 92 THEN CloseAt(o, i + 2, qq) ELSE IF o[i] = qq THEN i ELSE CloseAt(o, i + 1, qq)
JSValue(o) ==
  IF Len(o) < 2 THEN Invalid
  ELSE LET e == CloseAt(o, 2, o[1]) IN
       IF e # Len(o) THEN Invalid
       ELSE IF o[1] = 96 THEN TV(SubSeq(o, 2, e - 1)) ELSE SV(SubSeq(o, 2, e - 1))
ModelValue == IF LitTok.ty \in {"STRING", "RAW_STRING"} THEN JSValue(ModelOut) ELSE <<>>
Accepted7 == Len(Toks) >= 4 /\ LitTok.ty \in {"STRING", "RAW_STRING", "INT", "FLOAT"}
             /\ \A j \in 1..Len(Toks) : Toks[j].ty # "ILLEGAL"

Inv == /\ (~Accepted7 \/ HasSubst \/ RefValue = Invalid \/ kind = "num" \/ ModelValue = RefValue
           \/ PrintT(<<"MODELFAIL", ToJson([src |-> Src, want |-> RefValue, got |-> ModelValue])>>))
       /\ (Export => PrintT(ToJson([kind |-> kind, src |-> Src, lit |-> Lit, mout |-> IF Accepted7 THEN ModelOut ELSE <<>>,
                                     ref |-> RefValue])))
=============================================================================
