SPECIFICATION Spec
CONSTANTS
  Depth = 2
  MaxStmts = 3
  Contexts = {1, 3, 4, 6}
  Export = TRUE
INVARIANT Inv
CHECK_DEADLOCK FALSE
