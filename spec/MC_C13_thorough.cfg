SPECIFICATION Spec
CONSTANTS
  Depth = 2
  MaxStmts = 2
  Contexts = {1, 3, 4}
  Export = TRUE
INVARIANT Inv
CHECK_DEADLOCK FALSE
