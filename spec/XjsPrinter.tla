------------------------------ MODULE XjsPrinter ------------------------------
(***************************************************************************)
(* The WriteTo methods of ast/ast.go as one function from a tree to the    *)
(* sequence of CodeWriter operations it performs (Emit), for trees without *)
(* trivia and positions (programmatic trees: no lead / map operations).    *)
(* The printer has its OWN precedence table (operatorPrecedence), kept     *)
(* separate from the parser's.                                             *)
(***************************************************************************)
EXTENDS XjsGrammar, XjsWriter, XjsVocab

PP_LOWEST == 1
PP_ASSIGN == 2
PP_UNARY == 9
PP_POSTFIX == 10
PP_CALL == 11
PP_MEMBER == 12
PP_ATOMIC == 13
\* operatorPrecedence(be.Token.Type) for binary nodes, by operator text
PrinterBinPrec(op) ==
  CASE op = "||" -> 3 [] op = "&&" -> 4 [] op \in {"==", "!="} -> 5 [] op \in {"<", ">", "<=", ">="} -> 6
    [] op \in {"+", "-"} -> 7 [] op \in {"*", "/", "%"} -> 8 [] OTHER -> PP_LOWEST
\* Expression.Precedence()
PPrec(n) ==
  CASE n.k = "bin" -> PrinterBinPrec(n.op)
    [] n.k \in {"asg", "casg", "lete"} -> PP_ASSIGN
    [] n.k = "un" -> PP_UNARY
    [] n.k = "post" -> PP_POSTFIX
    [] n.k = "call" -> PP_CALL
    [] n.k \in {"mem", "idx"} -> PP_MEMBER
    [] OTHER -> PP_ATOMIC

S(str) == [op |-> "str", s |-> VB(str)]
SB(bytes) == [op |-> "str", s |-> bytes]
Ru(ch) == [op |-> "rune", r |-> VB(ch)[1]]
Sp == [op |-> "space"]
Nl == [op |-> "nl"]
Ind == [op |-> "indent"]
IncO == [op |-> "inc"]
DecO == [op |-> "dec"]
SemiO == [op |-> "semi"]
SepO(opstr) == [op |-> "sep", r |-> VB(SubSeq(opstr, 1, 1))[1]]     \* SeparateOperator(operator)

\* escapeDoubleQuotes of ast.go (StringLiteral.WriteTo): escape pairs are copied, bare double quotes escaped
RECURSIVE EscDQ(_, _)
EscDQ(v, i) ==
  IF i > Len(v) THEN <<>>
  ELSE IF v[i] = 92 THEN (IF i + 1 <= Len(v) THEN <<92, v[i + 1]>> \o EscDQ(v, i + 2) ELSE <<92>>)
  ELSE IF v[i] = 34 THEN <<92, 34>> \o EscDQ(v, i + 1)
  ELSE <<v[i]>> \o EscDQ(v, i + 1)

\* literal text of atoms: op holds a vocabulary string
\* endsWithOpenIf (ast.go): the loop over the last sub-statement
RECURSIVE PEndsInOpenIf(_)
PEndsInOpenIf(s) ==
  CASE s.k = "if" -> IF IsNilNode(s.c[3]) THEN TRUE ELSE PEndsInOpenIf(s.c[3])
    [] s.k = "while" -> ~IsNilNode(s.c[2]) /\ PEndsInOpenIf(s.c[2])
    [] s.k = "for" -> ~IsNilNode(s.c[4]) /\ PEndsInOpenIf(s.c[4])
    [] OTHER -> FALSE

RECURSIVE Emit(_), EmitList(_, _), EmitObj(_, _), EmitParams(_, _), EmitStmts(_, _, _)
\* writeParenthesised: like a GroupedExpression
Wrap(need, ops) == IF need THEN <<Ru("("), IncO>> \o ops \o <<DecO, Ru(")")>> ELSE ops

\* startsWithFunctionOrObject
RECURSIVE StartsFnObj(_)
StartsFnObj(e) ==
  IF IsNilNode(e) THEN FALSE
  ELSE CASE e.k \in {"fn", "obj"} -> TRUE
         [] e.k = "bin" -> ~IsNilNode(e.c[1]) /\ PPrec(e.c[1]) >= PPrec(e) /\ StartsFnObj(e.c[1])
         [] e.k = "post" -> ~IsNilNode(e.c[1]) /\ PPrec(e.c[1]) >= PP_POSTFIX /\ StartsFnObj(e.c[1])
         [] e.k \in {"call", "mem", "idx"} -> ~IsNilNode(e.c[1]) /\ PPrec(e.c[1]) >= PP_CALL /\ StartsFnObj(e.c[1])
         [] e.k \in {"asg", "casg"} -> StartsFnObj(e.c[1])
         [] OTHER -> FALSE

EmitList(es, i) ==
  IF i > Len(es) THEN <<>>
  ELSE (IF i > 1 THEN <<Ru(","), Sp>> ELSE <<>>) \o Emit(es[i]) \o EmitList(es, i + 1)
EmitObj(kv, i) ==
  IF i > Len(kv) THEN <<>>
  ELSE (IF i > 1 THEN <<Ru(","), Sp>> ELSE <<>>) \o Emit(kv[i]) \o <<Ru(":"), Sp>> \o Emit(kv[i + 1]) \o EmitObj(kv, i + 2)
EmitParams(ps, i) ==
  IF i > Len(ps) THEN <<>>
  ELSE (IF i > 1 THEN <<Ru(","), Sp>> ELSE <<>>) \o Emit(ps[i]) \o EmitParams(ps, i + 1)
\* statements of a block (indent before each) or of the program (no indent)
EmitStmts(ss, i, inBlock) ==
  IF i > Len(ss) THEN <<>>
  ELSE (IF i > 1 THEN <<Nl>> ELSE <<>>) \o (IF inBlock THEN <<Ind>> ELSE <<>>) \o Emit(ss[i]) \o EmitStmts(ss, i + 1, inBlock)

Emit(n) ==
  CASE n.k = "prog" -> EmitStmts(n.c, 1, FALSE) \o <<[op |-> "forget"]>>
    [] n.k = "let" ->
         <<S("let ")>> \o Emit(n.c[1]) \o (IF IsNilNode(n.c[2]) THEN <<>> ELSE <<Sp, Ru("="), Sp>> \o Emit(n.c[2])) \o <<SemiO>>
    [] n.k = "lete" ->
         <<S("let ")>> \o Emit(n.c[1]) \o (IF IsNilNode(n.c[2]) THEN <<>> ELSE <<Sp, Ru("="), Sp>> \o Emit(n.c[2]))
    [] n.k = "ret" -> <<S("return")>> \o (IF IsNilNode(n.c[1]) THEN <<>> ELSE <<Ru(" ")>> \o Emit(n.c[1])) \o <<SemiO>>
    [] n.k = "expr" -> IF IsNilNode(n.c[1]) THEN <<>> ELSE Wrap(StartsFnObj(n.c[1]), Emit(n.c[1])) \o <<SemiO>>
    [] n.k = "fdecl" ->
         <<S("function ")>> \o Emit(n.c[1]) \o <<Ru("(")>> \o EmitParams(n.c[2].c, 1) \o <<Ru(")"), Sp>> \o Emit(n.c[3])
    [] n.k = "blk" ->
         <<Ru("{"), Nl, IncO>> \o EmitStmts(n.c, 1, TRUE) \o <<DecO, Nl, [op |-> "forget"], Ind, Ru("}")>>
    [] n.k = "if" ->
         <<S("if"), Sp, Ru("(")>> \o Emit(n.c[1]) \o <<Ru(")"), Sp>>
         \* writeBraced: an else-less `if` at the end of the consequence would take this `else`
         \o (IF ~IsNilNode(n.c[3]) /\ ~IsNilNode(n.c[2]) /\ PEndsInOpenIf(n.c[2])
             THEN <<Ru("{"), Nl, IncO, Ind>> \o Emit(n.c[2]) \o <<DecO, Nl, [op |-> "forget"], Ind, Ru("}")>>
             ELSE Emit(n.c[2]))
         \o (IF IsNilNode(n.c[3]) THEN <<>> ELSE <<S(" else ")>> \o Emit(n.c[3]))
    [] n.k = "while" -> <<S("while"), Sp, Ru("(")>> \o Emit(n.c[1]) \o <<Ru(")"), Sp>> \o Emit(n.c[2])
    [] n.k = "for" ->
         <<S("for"), Sp, Ru("(")>> \o (IF IsNilNode(n.c[1]) THEN <<>> ELSE Emit(n.c[1])) \o <<Ru(";"), Sp>>
         \o (IF IsNilNode(n.c[2]) THEN <<>> ELSE Emit(n.c[2])) \o <<Ru(";"), Sp>>
         \o (IF IsNilNode(n.c[3]) THEN <<>> ELSE Emit(n.c[3])) \o <<Ru(")"), Sp>> \o Emit(n.c[4])
    [] n.k \in {"id", "num", "flt"} -> <<S(n.op)>>
    [] n.k = "bool" -> <<S(n.op)>>
    [] n.k = "null" -> <<S("null")>>
    [] n.k = "str" -> <<Ru("\""), SB(EscDQ(VB(n.op), 1)), Ru("\"")>>
    [] n.k = "raw" -> <<Ru("`"), S(n.op), Ru("`")>>
    [] n.k = "bin" ->
         LET my == PPrec(n) IN
         Wrap(PPrec(n.c[1]) < my, Emit(n.c[1])) \o <<Sp, SepO(n.op), S(n.op), Sp>> \o Wrap(PPrec(n.c[2]) <= my, Emit(n.c[2]))
    [] n.k = "un" -> <<SepO(n.op), S(n.op)>> \o Wrap(PPrec(n.c[1]) < PP_UNARY, Emit(n.c[1]))
    [] n.k = "post" -> Wrap(PPrec(n.c[1]) < PP_POSTFIX, Emit(n.c[1])) \o <<S(n.op)>>
    [] n.k = "grp" -> <<Ru("("), IncO>> \o Emit(n.c[1]) \o <<DecO, Ru(")")>>
    \* a callee / object that binds less tightly than a call is parenthesised: (a + b)(c), (-a).p, (a = b)[c]
    [] n.k = "call" -> Wrap(PPrec(n.c[1]) < PP_CALL, Emit(n.c[1])) \o <<Ru("("), IncO>> \o EmitList(SubSeq(n.c, 2, Len(n.c)), 1) \o <<DecO, Ru(")")>>
    [] n.k = "mem" ->
         \* a space between a decimal integer literal and the dot (`5.x` would be the number `5.`)
         Wrap(PPrec(n.c[1]) < PP_CALL, Emit(n.c[1])) \o (IF n.c[1].k = "num" /\ \A j \in 1..Len(VB(n.c[1].op)) : VB(n.c[1].op)[j] \in 48..57 THEN <<Ru(" ")>> ELSE <<>>)
         \o <<Ru(".")>> \o Emit(n.c[2])
    [] n.k = "idx" -> Wrap(PPrec(n.c[1]) < PP_CALL, Emit(n.c[1])) \o <<Ru("[")>> \o Emit(n.c[2]) \o <<Ru("]")>>
    [] n.k = "asg" -> Emit(n.c[1]) \o <<Sp, Ru("="), Sp>> \o Emit(n.c[2])
    [] n.k = "casg" -> Emit(n.c[1]) \o <<Sp, S(SubSeq(n.op, 1, 1)), Ru("="), Sp>> \o Emit(n.c[2])
    [] n.k = "fn" ->
         <<S("function")>> \o (IF IsNilNode(n.c[1]) THEN <<>> ELSE <<Ru(" ")>> \o Emit(n.c[1]))
         \o <<Ru("(")>> \o EmitParams(n.c[2].c, 1) \o <<Ru(")"), Sp>> \o Emit(n.c[3])
    [] n.k = "arr" -> <<Ru("["), IncO>> \o EmitList(n.c, 1) \o <<DecO, Ru("]")>>
    [] n.k = "obj" -> <<Ru("{"), IncO>> \o EmitObj(n.c, 1) \o <<DecO, Ru("}")>>

\* Compiler.Compile(tree) under a configuration
PrintTree(tree, cfg) == Finish(Run(W0(cfg), Emit(tree), 1))
Compact == Cfg(FALSE, <<>>, TRUE, FALSE)
Pretty(unit, semis) == Cfg(TRUE, unit, semis, FALSE)
=============================================================================
