SPECIFICATION Spec
CONSTANTS
  MaxLen = 4
  Kinds <- XKinds
  Export = TRUE
INVARIANT Inv
CHECK_DEADLOCK FALSE
