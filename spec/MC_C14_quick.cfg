SPECIFICATION Spec
CONSTANTS
  MaxSlots = 4
  MaxOrder = 3
  Triples <- QTriples
  Export = TRUE
INVARIANT Inv
PROPERTIES GlobalsNeverChange NonInterference
CHECK_DEADLOCK FALSE
