SPECIFICATION Spec
CONSTANTS
  Depth = 2
  MaxStmts = 2
  Export = TRUE
INVARIANT Inv
CHECK_DEADLOCK FALSE
