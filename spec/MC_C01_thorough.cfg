SPECIFICATION Spec
CONSTANTS
  Depth = 3
  MaxStmts = 3
  Export = TRUE
INVARIANT Inv
CHECK_DEADLOCK FALSE
