SPECIFICATION Spec
CONSTANTS
  MaxStmts = 2
  MutKinds = {"IDENT", "SEMICOLON", "LPAREN", "RPAREN", "LBRACE", "RBRACE", "ASSIGN", "PLUS", "COMMA", "ELSE", "INCREMENT", "DOT", "LBRACKET", "FUNCTION", "LET", "RETURN"}
  Export = TRUE
INVARIANT Inv
CHECK_DEADLOCK FALSE
