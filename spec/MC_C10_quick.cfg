SPECIFICATION Spec
CONSTANTS
  MaxLen <- QMaxLen
  Alphabets <- MCAlphabets
  Extra = 2
  Export = TRUE
INVARIANT Inv
CHECK_DEADLOCK FALSE
