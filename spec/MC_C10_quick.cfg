SPECIFICATION Spec
CONSTANTS
  MaxLen <- QMaxLen
  Alphabets <- MCAlphabets
  Extra = 2
  RepMax = 9
  Export = TRUE
INVARIANT Inv
CHECK_DEADLOCK FALSE
