SPECIFICATION Spec
CONSTANTS
  MaxStmts = 1
  MaxDecorated = 2
  NTexts = 12
  Export = TRUE
  Inner = TRUE
INVARIANT Inv
CHECK_DEADLOCK FALSE
