SPECIFICATION Spec
CONSTANTS
  MaxInst = 3
  NestDepth = 3
  SpineDepth = 1
  NestableOnly = FALSE
  Export = TRUE
INVARIANT Inv
CHECK_DEADLOCK FALSE
