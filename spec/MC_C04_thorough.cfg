SPECIFICATION Spec
CONSTANTS
  MaxInst = 3
  NestDepth = 3
  SpineDepth = 2
  NestableOnly = FALSE
  Export = TRUE
INVARIANT Inv
CHECK_DEADLOCK FALSE
