SPECIFICATION TraceSpec
CONSTANT Shards = 16
POSTCONDITION TraceAccepted
CHECK_DEADLOCK FALSE
