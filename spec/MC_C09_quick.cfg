SPECIFICATION Spec
CONSTANTS
  MaxLen = 3
  SrcPos <- QSrcPos
  Names = {"x", "y"}
  Cols = {1, 17}
  Strs <- QStrs
  Export = TRUE
INVARIANTS InvRef InvP InvNames InvSorted InvExport
PROPERTY StableNames
CHECK_DEADLOCK FALSE
