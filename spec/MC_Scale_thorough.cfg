SPECIFICATION Spec
CONSTANTS
  Sizes = {8, 9, 16, 17, 33, 34, 65, 101, 130, 257, 300, 520, 1030}
  BigSizes = {2100}
  DeepSizes = {1100}
  ModelUpTo = 70
  Export = TRUE
INVARIANT Inv
CHECK_DEADLOCK FALSE
