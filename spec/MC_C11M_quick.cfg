SPECIFICATION Spec
CONSTANTS
  MaxStmts = 1
  MutKinds = {"IDENT", "SEMICOLON", "LPAREN", "RPAREN", "LBRACE", "RBRACE", "ASSIGN", "PLUS", "COMMA", "ELSE", "LET", "FUNCTION"}
  Export = TRUE
INVARIANT Inv
CHECK_DEADLOCK FALSE
