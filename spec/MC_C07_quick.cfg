SPECIFICATION Spec
CONSTANTS
  MaxAtoms = 2
  Sweep = FALSE
  Export = TRUE
INVARIANT Inv
CHECK_DEADLOCK FALSE
