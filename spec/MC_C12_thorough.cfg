SPECIFICATION Spec
CONSTANTS
  Depth = 2
  MaxStmts = 3
  Contexts = {1, 2, 4, 5, 7}
  Export = TRUE
INVARIANT Inv
CHECK_DEADLOCK FALSE
