----------------------------- MODULE XjsParser -----------------------------
(***************************************************************************)
(* The Pratt parser of xjslang/xjs (parser/parser.go, parser_functions.go, *)
(* base_parser_functions.go, parser_context.go) transcribed function by    *)
(* function at TOKEN level, including error paths, the context stack, the  *)
(* interceptor chains and registered (custom) operators.                   *)
(*                                                                         *)
(* P  (configuration of one built parser):                                 *)
(*   toks     sequence of tokens [ty, lit, nl, ok]; the last one is EOF    *)
(*            (ok: numeric literal accepted by strconv - an abstraction of *)
(*            the literal, like ty)                                        *)
(*   tolerant, smart   mode flags                                          *)
(*   schain, echain    statement / expression interceptor kinds in         *)
(*                     INSTALLATION order: "pass" | "reent"                *)
(*   cprefix  set of token types with a registered prefix operator         *)
(*   cinfix   function: token type -> level, registered infix operators    *)
(*   cpostfix set of token types with a registered postfix operator        *)
(* st (mutable parser state): i = index of CurrentToken, errs, ctx (stack),*)
(*   log (interceptor events), cep (currentExpressionPrecedence)           *)
(* Every Parse* operator returns [n |-> node, st |-> state].               *)
(* Cursor protocol as in the code: on entry the current token is the       *)
(* construct's first token, on exit its last token.                        *)
(***************************************************************************)
EXTENDS Integers, Sequences, TLC

LOWEST == 1
ASSIGNMENT == 2
LOGICAL_OR == 3
LOGICAL_AND == 4
EQUALITY == 5
COMPARISON == 6
SUM == 7
PRODUCT == 8
UNARY == 9
POSTFIX == 10
CALL == 11
MEMBER == 12

\* package-level `precedences`
BuiltinPrec ==
  [ASSIGN |-> ASSIGNMENT, PLUS_ASSIGN |-> ASSIGNMENT, MINUS_ASSIGN |-> ASSIGNMENT,
   OR |-> LOGICAL_OR, AND |-> LOGICAL_AND, EQ |-> EQUALITY, NOT_EQ |-> EQUALITY,
   LT |-> COMPARISON, GT |-> COMPARISON, LTE |-> COMPARISON, GTE |-> COMPARISON,
   PLUS |-> SUM, MINUS |-> SUM, MULTIPLY |-> PRODUCT, DIVIDE |-> PRODUCT, MODULO |-> PRODUCT,
   INCREMENT |-> POSTFIX, DECREMENT |-> POSTFIX, LPAREN |-> CALL, DOT |-> MEMBER,
   LBRACKET |-> MEMBER]

BinaryTypes == {"PLUS", "MINUS", "MULTIPLY", "DIVIDE", "MODULO", "EQ", "NOT_EQ", "LT", "GT",
                "LTE", "GTE", "AND", "OR"}
BuiltinPrefix == {"IDENT", "INT", "FLOAT", "STRING", "RAW_STRING", "TRUE", "FALSE", "NULL", "NOT",
                  "MINUS", "INCREMENT", "DECREMENT", "LPAREN", "LBRACKET", "LBRACE", "FUNCTION"}

---------------------------------------------------------------------------
(* trees: uniform nodes [k, op, c] *)
Node(k, op, c) == [k |-> k, op |-> op, c |-> c]
Nil == Node("nil", "", <<>>)
Opt(n) == n

---------------------------------------------------------------------------
(* parser state and cursor *)
T(P, j) == IF j <= Len(P.toks) THEN P.toks[j] ELSE P.toks[Len(P.toks)]
CurT(P, st) == T(P, st.i)
PeekT(P, st) == T(P, st.i + 1)
At(P, j) == IF j <= Len(P.toks) THEN j ELSE Len(P.toks)

NextTok(st) == [st EXCEPT !.i = @ + 1]
AddErr(P, st, m, j) == [st EXCEPT !.errs = Append(@, [m |-> m, at |-> At(P, j)])]
Push(st, c) == [st EXCEPT !.ctx = Append(@, c)]
Pop(st) == [st EXCEPT !.ctx = IF Len(@) > 0 THEN SubSeq(@, 1, Len(@) - 1) ELSE @]
TopCtx(st) == IF Len(st.ctx) = 0 THEN "global" ELSE st.ctx[Len(st.ctx)]
InFn(st) == \E k \in 1..Len(st.ctx) : st.ctx[k] = "function"

InitState == [i |-> 1, errs |-> <<>>, ctx |-> <<"global">>, log |-> <<>>, cep |-> 0]

R(n, st) == [n |-> n, st |-> st]

\* ExpectToken
Expect(P, st, ty) ==
  IF PeekT(P, st).ty = ty THEN [ok |-> TRUE, st |-> NextTok(st)]
  ELSE [ok |-> FALSE, st |-> AddErr(P, st, "expected", st.i + 1)]

\* shouldInsertSemicolon, as Go executes it: the cases of the switch have no fallthrough, so only
\* the last one (MINUS_ASSIGN) returns false.
ShouldInsertSemicolon(P, st) ==
  LET pk == PeekT(P, st) IN
  IF pk.ty = "EOF" THEN TRUE
  ELSE IF pk.ty = "RBRACE" THEN TRUE
  ELSE IF ~pk.nl THEN FALSE
  ELSE pk.ty # "MINUS_ASSIGN"

\* ExpectSemicolonASI
ExpectSemi(P, st) ==
  IF PeekT(P, st).ty = "SEMICOLON" THEN [ok |-> TRUE, st |-> NextTok(st)]
  ELSE IF ShouldInsertSemicolon(P, st) THEN [ok |-> TRUE, st |-> st]
  ELSE IF P.tolerant THEN [ok |-> TRUE, st |-> st]
  ELSE [ok |-> FALSE, st |-> AddErr(P, st, "semicolon", st.i + 1)]

\* per-parser binding powers: registered postfix operators are entered last (level CALL),
\* registered infix operators before them
PrecOf(P, ty) ==
  IF ty \in P.cpostfix THEN CALL
  ELSE IF ty \in DOMAIN P.cinfix THEN P.cinfix[ty]
  ELSE IF ty \in DOMAIN BuiltinPrec THEN BuiltinPrec[ty]
  ELSE LOWEST

Ev(kind, id, ph, P, st, prec) ==
  [kind |-> kind, id |-> id, ph |-> ph, tok |-> At(P, st.i), ctx |-> TopCtx(st), infn |-> InFn(st),
   prec |-> prec]
Log(st, e) == [st EXCEPT !.log = Append(@, e)]

\* isAssignmentTarget / isUpdateTarget (parser_functions.go): only core node kinds that JavaScript
\* never accepts are refused; patterns (arr, obj) and plugin nodes are left alone for `=`
RECURSIVE AsgTarget(_)
AsgTarget(n) ==
  IF n.k = "grp" THEN AsgTarget(n.c[1])
  ELSE IF n.k = "arr" THEN \A j \in 1..Len(n.c) : AsgTarget(n.c[j])
  ELSE IF n.k = "obj" THEN \A j \in 1..Len(n.c) : (j % 2 = 0) => AsgTarget(n.c[j])
  ELSE n.k \notin {"num", "flt", "str", "raw", "bool", "null", "bin", "un", "post", "call", "fn", "asg", "casg", "lete"}
RECURSIVE UpdTarget(_)
UpdTarget(n) ==
  IF n.k = "grp" THEN UpdTarget(n.c[1])
  ELSE n.k \notin {"arr", "obj"} /\ AsgTarget(n)

---------------------------------------------------------------------------
RECURSIVE ParseStatement(_, _), SChain(_, _, _), BaseStatement(_, _), BlockLoop(_, _, _),
          ParseBlock(_, _), ParseExpr(_, _, _), EChain(_, _, _, _), BaseExpr(_, _, _),
          ParsePrefix(_, _), Remaining(_, _, _, _), ParseInfix(_, _, _), ExprListRest(_, _, _),
          ExprList(_, _, _), ObjProps(_, _, _), ParamsRest(_, _, _), FunctionTail(_, _, _, _)

\* p.statementParseFn(p): the interceptor chain around baseParseStatement
ParseStatement(P, st) == SChain(P, st, 1)

SChain(P, st, k) ==
  IF k > Len(P.schain) THEN BaseStatement(P, st)
  ELSE LET st1 == Log(st, Ev("stmt", k, "enter", P, st, 0))
           r   == SChain(P, st1, k + 1)
       IN R(r.n, Log(r.st, Ev("stmt", k, "exit", P, r.st, 0)))

\* ParseFunctionParameters: current token is "(" ; returns [ps, st] (ps = <<>> also when it
\* returns nil because ")" is missing)
ParamsRest(P, st, acc) ==
  IF PeekT(P, st).ty = "COMMA" THEN
    LET st2 == NextTok(NextTok(st))
    IN ParamsRest(P, st2, Append(acc, Node("id", CurT(P, st2).lit, <<>>)))
  ELSE LET e == Expect(P, st, "RPAREN")
       IN IF e.ok THEN [ps |-> acc, st |-> e.st] ELSE [ps |-> <<>>, st |-> e.st]

Params(P, st) ==
  IF PeekT(P, st).ty = "RPAREN" THEN [ps |-> <<>>, st |-> NextTok(st)]
  ELSE LET st1 == NextTok(st)
       IN ParamsRest(P, st1, <<Node("id", CurT(P, st1).lit, <<>>)>>)

\* common tail of function declarations / expressions: current token is "(" already expected
\* kind = "fdecl" | "fn", name = node or Nil
FunctionTail(P, st, kind, name) ==
  LET ps == Params(P, st)
      e  == Expect(P, ps.st, "LBRACE")
  IN IF ~e.ok THEN R(Nil, e.st)
     ELSE LET b == ParseBlock(P, Push(e.st, "function"))
          IN R(Node(kind, "", <<name, Node("params", "", ps.ps), b.n>>), Pop(b.st))

\* rejectDeclarationAsBody: current token is the first token of an if/else/while/for body
NoDecl(P, st, loop) ==
  IF CurT(P, st).ty = "LET" \/ (loop /\ CurT(P, st).ty = "FUNCTION")
  THEN AddErr(P, st, "declaration", st.i) ELSE st

\* ParseBlockStatement: current token is "{"
BlockLoop(P, st, acc) ==
  IF CurT(P, st).ty \in {"RBRACE", "EOF"} THEN [ss |-> acc, st |-> st]
  ELSE LET r == ParseStatement(P, st)
       IN BlockLoop(P, NextTok(r.st), IF r.n = Nil THEN acc ELSE Append(acc, r.n))

ParseBlock(P, st) ==
  LET l   == BlockLoop(P, NextTok(Push(st, "block")), <<>>)
      st2 == IF CurT(P, l.st).ty # "RBRACE" /\ ~P.tolerant
             THEN AddErr(P, l.st, "unclosed", l.st.i) ELSE l.st
  IN R(Node("blk", "", l.ss), Pop(st2))

\* let statement / let expression (for-init): current token is "let"
LetCommon(P, st, kind, semi) ==
  LET e == Expect(P, st, "IDENT") IN
  IF ~e.ok THEN R(Nil, e.st)
  ELSE LET name == Node("id", CurT(P, e.st).lit, <<>>)
           v    == IF PeekT(P, e.st).ty = "ASSIGN"
                   THEN ParseExpr(P, NextTok(NextTok(e.st)), LOWEST)
                   ELSE R(Nil, e.st)
       IN IF ~semi THEN R(Node(kind, "", <<name, v.n>>), v.st)
          ELSE LET s == ExpectSemi(P, v.st)
               IN IF s.ok THEN R(Node(kind, "", <<name, v.n>>), s.st) ELSE R(Nil, s.st)

BaseStatement(P, st) ==
  LET ty == CurT(P, st).ty IN
  CASE ty = "LET" -> LetCommon(P, st, "let", TRUE)
    [] ty = "FUNCTION" ->
         LET e1 == Expect(P, st, "IDENT") IN
         IF ~e1.ok THEN R(Nil, e1.st)
         ELSE LET name == Node("id", CurT(P, e1.st).lit, <<>>)
                  e2   == Expect(P, e1.st, "LPAREN")
              IN IF ~e2.ok THEN R(Nil, e2.st) ELSE FunctionTail(P, e2.st, "fdecl", name)
    [] ty = "RETURN" ->
         LET st0 == IF InFn(st) THEN st ELSE AddErr(P, st, "return", st.i)      \* return outside of a function
             pk == PeekT(P, st0)
             v  == IF pk.ty \notin {"SEMICOLON", "EOF", "RBRACE"} /\ ~pk.nl
                   THEN ParseExpr(P, NextTok(st0), LOWEST) ELSE R(Nil, st0)
             s  == ExpectSemi(P, v.st)
         IN IF s.ok THEN R(Node("ret", "", <<v.n>>), s.st) ELSE R(Nil, s.st)
    [] ty = "IF" ->
         LET e1 == Expect(P, st, "LPAREN") IN
         IF ~e1.ok THEN R(Nil, e1.st)
         ELSE LET c  == ParseExpr(P, NextTok(e1.st), LOWEST)
                  e2 == Expect(P, c.st, "RPAREN")
              IN IF ~e2.ok THEN R(Nil, e2.st)
                 ELSE LET th == ParseStatement(P, NoDecl(P, NextTok(e2.st), FALSE))
                          el == IF PeekT(P, th.st).ty = "ELSE"
                                THEN ParseStatement(P, NoDecl(P, NextTok(NextTok(th.st)), FALSE))
                                ELSE R(Nil, th.st)
                      IN R(Node("if", "", <<c.n, th.n, el.n>>), el.st)
    [] ty = "WHILE" ->
         LET e1 == Expect(P, st, "LPAREN") IN
         IF ~e1.ok THEN R(Nil, e1.st)
         ELSE LET c  == ParseExpr(P, NextTok(e1.st), LOWEST)
                  e2 == Expect(P, c.st, "RPAREN")
              IN IF ~e2.ok THEN R(Nil, e2.st)
                 ELSE LET b == ParseStatement(P, NoDecl(P, NextTok(e2.st), TRUE))
                      IN R(Node("while", "", <<c.n, b.n>>), b.st)
    [] ty = "FOR" ->
         LET e1 == Expect(P, st, "LPAREN") IN
         IF ~e1.ok THEN R(Nil, e1.st)
         ELSE LET ini == IF PeekT(P, e1.st).ty # "SEMICOLON"
                         THEN LET s1 == NextTok(e1.st)
                              IN IF CurT(P, s1).ty = "LET" THEN LetCommon(P, s1, "lete", FALSE)
                                 ELSE ParseExpr(P, s1, LOWEST)
                         ELSE R(Nil, e1.st)
                  e2  == Expect(P, ini.st, "SEMICOLON")
              IN IF ~e2.ok THEN R(Nil, e2.st)
                 ELSE LET cnd == IF PeekT(P, e2.st).ty # "SEMICOLON"
                                 THEN ParseExpr(P, NextTok(e2.st), LOWEST) ELSE R(Nil, e2.st)
                          e3  == Expect(P, cnd.st, "SEMICOLON")
                      IN IF ~e3.ok THEN R(Nil, e3.st)
                         ELSE LET upd == IF PeekT(P, e3.st).ty # "RPAREN"
                                         THEN ParseExpr(P, NextTok(e3.st), LOWEST) ELSE R(Nil, e3.st)
                                  e4  == Expect(P, upd.st, "RPAREN")
                              IN IF ~e4.ok THEN R(Nil, e4.st)
                                 ELSE LET b == ParseStatement(P, NoDecl(P, NextTok(e4.st), TRUE))
                                      IN R(Node("for", "", <<ini.n, cnd.n, upd.n, b.n>>), b.st)
    [] ty = "LBRACE" -> ParseBlock(P, st)
    [] OTHER ->
         LET e == ParseExpr(P, st, LOWEST)
             s == ExpectSemi(P, e.st)
         IN IF s.ok THEN R(Node("expr", "", <<e.n>>), s.st) ELSE R(Nil, s.st)

---------------------------------------------------------------------------
\* p.expressionParseFn(p, prec): the interceptor chain around baseParseExpression.  Every link
\* saves currentExpressionPrecedence, sets it to prec and restores it on the way out.
ParseExpr(P, st, prec) ==
  IF Len(P.echain) = 0 THEN BaseExpr(P, st, prec)
  ELSE LET r == EChain(P, [st EXCEPT !.cep = prec], prec, 1)
       IN R(r.n, [r.st EXCEPT !.cep = st.cep])

EChain(P, st, prec, k) ==
  IF k > Len(P.echain) THEN BaseExpr(P, st, prec)
  ELSE LET st1 == Log(st, Ev("expr", k, "enter", P, st, prec))
           r   == IF P.echain[k] = "reent"
                  THEN \* parses the prefix itself, then asks the parser to continue
                       LET l == ParsePrefix(P, st1) IN Remaining(P, l.st, l.n, l.st.cep)
                  ELSE EChain(P, st1, prec, k + 1)
       IN R(r.n, Log(r.st, Ev("expr", k, "exit", P, r.st, prec)))

BaseExpr(P, st, prec) ==
  LET l == ParsePrefix(P, st) IN Remaining(P, l.st, l.n, prec)

\* ParseExpressionList(end): current token is the opening bracket.  es = <<>> also when nil is
\* returned because the closer is missing.
ExprListRest(P, st, acc) ==
  IF PeekT(P, st).ty = "COMMA" THEN
    LET e == ParseExpr(P, NextTok(NextTok(st)), LOWEST)
    IN ExprListRest(P, e.st, Append(acc, e.n))
  ELSE [es |-> acc, st |-> st]

ExprList(P, st, end) ==
  IF PeekT(P, st).ty = end THEN [es |-> <<>>, st |-> NextTok(st)]
  ELSE LET f == ParseExpr(P, NextTok(st), LOWEST)
           r == ExprListRest(P, f.st, <<f.n>>)
           e == Expect(P, r.st, end)
       IN IF e.ok THEN [es |-> r.es, st |-> e.st] ELSE [es |-> <<>>, st |-> e.st]

\* object literal properties: current token is the first token of a key
ObjProps(P, st, acc) ==
  LET k == ParseExpr(P, st, LOWEST)
      e == Expect(P, k.st, "COLON")
  IN IF ~e.ok THEN [ok |-> FALSE, ps |-> acc, st |-> e.st]
     ELSE LET v    == ParseExpr(P, NextTok(e.st), LOWEST)
              acc2 == acc \o <<k.n, v.n>>
          IN IF PeekT(P, v.st).ty # "COMMA" THEN [ok |-> TRUE, ps |-> acc2, st |-> v.st]
             ELSE ObjProps(P, NextTok(NextTok(v.st)), acc2)

ParsePrefix(P, st) ==
  LET tk == CurT(P, st)
      ty == tk.ty
  IN
  IF ty \in P.cprefix THEN
       LET r == ParseExpr(P, NextTok(st), UNARY) IN R(Node("cun", ty, <<r.n>>), r.st)
  ELSE CASE ty = "IDENT" -> R(Node("id", tk.lit, <<>>), st)
    [] ty = "INT" -> IF tk.ok THEN R(Node("num", tk.lit, <<>>), st)
                     ELSE R(Nil, AddErr(P, st, "badint", st.i))
    [] ty = "FLOAT" -> IF tk.ok THEN R(Node("flt", tk.lit, <<>>), st)
                       ELSE R(Nil, AddErr(P, st, "badfloat", st.i))
    [] ty = "STRING" -> R(Node("str", tk.lit, <<>>), st)
    [] ty = "RAW_STRING" -> R(Node("raw", tk.lit, <<>>), st)
    [] ty \in {"TRUE", "FALSE"} -> R(Node("bool", IF ty = "TRUE" THEN "true" ELSE "false", <<>>), st)
    [] ty = "NULL" -> R(Node("null", "", <<>>), st)
    [] ty \in {"NOT", "MINUS", "INCREMENT", "DECREMENT"} ->
         LET r == ParseExpr(P, NextTok(st), UNARY)
             bad == ty \in {"INCREMENT", "DECREMENT"} /\ ~UpdTarget(r.n)
         IN R(Node("un", tk.lit, <<r.n>>), IF bad THEN AddErr(P, r.st, "invalid", r.st.i) ELSE r.st)      \* at the operand's LAST token
    [] ty = "LPAREN" ->
         LET e == ParseExpr(P, NextTok(st), LOWEST)
             x == Expect(P, e.st, "RPAREN")
         IN IF x.ok THEN R(Node("grp", "", <<e.n>>), x.st) ELSE R(Nil, x.st)
    [] ty = "LBRACKET" ->
         LET l == ExprList(P, st, "RBRACKET") IN R(Node("arr", "", l.es), l.st)
    [] ty = "LBRACE" ->
         IF PeekT(P, st).ty = "RBRACE" THEN R(Node("obj", "", <<>>), NextTok(st))
         ELSE LET o == ObjProps(P, NextTok(st), <<>>) IN
              IF ~o.ok THEN R(Nil, o.st)
              ELSE LET x == Expect(P, o.st, "RBRACE")
                   IN IF x.ok THEN R(Node("obj", "", o.ps), x.st) ELSE R(Nil, x.st)
    [] ty = "FUNCTION" ->
         LET named == PeekT(P, st).ty = "IDENT"
             st1   == IF named THEN NextTok(st) ELSE st
             name  == IF named THEN Node("id", CurT(P, st1).lit, <<>>) ELSE Nil
             e     == Expect(P, st1, "LPAREN")
         IN IF ~e.ok THEN R(Nil, e.st) ELSE FunctionTail(P, e.st, "fn", name)
    [] OTHER -> R(Nil, AddErr(P, st, "unexpected", st.i))

\* ParseRemainingExpressionWithPrecedence
Remaining(P, st, left, prec) ==
  LET pk == PeekT(P, st) IN
  IF pk.ty # "SEMICOLON" /\ prec < PrecOf(P, pk.ty) THEN
    IF pk.nl /\ pk.ty \in {"INCREMENT", "DECREMENT"} THEN R(left, st)   \* restricted production
    ELSE IF P.smart /\ pk.nl /\ pk.ty \in {"LPAREN", "LBRACKET"} THEN R(left, st)
    ELSE LET r == ParseInfix(P, st, left) IN Remaining(P, r.st, r.n, prec)
  ELSE R(left, st)

\* rejectPostfixOperand: the value of x++ / x-- used as callee or object
NoPostfix(P, st, left) == IF left.k = "post" THEN AddErr(P, st, "unexpected", st.i) ELSE st

\* ParseInfixExpression + the infix function of the peek token
ParseInfix(P, st, left) ==
  LET st1 == NextTok(st)          \* current token = the operator
      tk  == CurT(P, st1)
      ty  == tk.ty
  IN
  IF ty \in P.cpostfix THEN R(Node("cpost", ty, <<left>>), st1)
  ELSE IF ty \in DOMAIN P.cinfix THEN
       LET r == ParseExpr(P, NextTok(st1), PrecOf(P, ty)) IN R(Node("cbin", ty, <<left, r.n>>), r.st)
  ELSE CASE ty \in BinaryTypes ->
         LET r == ParseExpr(P, NextTok(st1), PrecOf(P, ty)) IN R(Node("bin", tk.lit, <<left, r.n>>), r.st)
    [] ty = "ASSIGN" ->
         LET st2 == IF AsgTarget(left) THEN st1 ELSE AddErr(P, st1, "invalid", st1.i)
             r == ParseExpr(P, NextTok(st2), LOWEST) IN R(Node("asg", "=", <<left, r.n>>), r.st)
    [] ty \in {"PLUS_ASSIGN", "MINUS_ASSIGN"} ->
         LET st2 == IF UpdTarget(left) THEN st1 ELSE AddErr(P, st1, "invalid", st1.i)
             r == ParseExpr(P, NextTok(st2), LOWEST)
         IN R(Node("casg", IF ty = "PLUS_ASSIGN" THEN "+=" ELSE "-=", <<left, r.n>>), r.st)
    [] ty = "LPAREN" ->
         LET l == ExprList(P, NoPostfix(P, st1, left), "RPAREN") IN R(Node("call", "", <<left>> \o l.es), l.st)
    [] ty = "DOT" ->
         LET st2 == NoPostfix(P, st1, left)
             r == ParseExpr(P, NextTok(st2), MEMBER)
             bad == r.n.k \in {"grp", "num", "flt", "str", "raw", "arr", "obj", "fn", "un"}
         IN R(Node("mem", "", <<left, r.n>>), IF bad THEN AddErr(P, r.st, "expected", st1.i + 1) ELSE r.st)
    [] ty = "LBRACKET" ->
         LET r == ParseExpr(P, NextTok(NoPostfix(P, st1, left)), LOWEST)
             x == Expect(P, r.st, "RBRACKET")
         IN IF x.ok THEN R(Node("idx", "", <<left, r.n>>), x.st) ELSE R(Nil, x.st)
    [] ty \in {"INCREMENT", "DECREMENT"} ->
         R(Node("post", tk.lit, <<left>>), IF UpdTarget(left) THEN st1 ELSE AddErr(P, st1, "invalid", st1.i))
    [] OTHER -> Assert(FALSE, <<"binding power without infix function", ty>>)

---------------------------------------------------------------------------
\* ParseProgram
RECURSIVE ProgramLoop(_, _, _)
ProgramLoop(P, st, acc) ==
  IF CurT(P, st).ty = "EOF" THEN [ss |-> acc, st |-> st]
  ELSE LET r == ParseStatement(P, st)
       IN ProgramLoop(P, NextTok(r.st), IF r.n = Nil THEN acc ELSE Append(acc, r.n))

ParseProgram(P) ==
  LET l == ProgramLoop(P, InitState, <<>>)
  IN [tree |-> Node("prog", "", l.ss), errs |-> l.st.errs, log |-> l.st.log,
      ctx |-> l.st.ctx, cep |-> l.st.cep, i |-> l.st.i]

DefaultP(toks) ==
  [toks |-> toks, tolerant |-> FALSE, smart |-> FALSE, schain |-> <<>>, echain |-> <<>>,
   cprefix |-> {}, cinfix |-> <<>>, cpostfix |-> {}]

\* trees without explicit grouping nodes
RECURSIVE Strip(_)
Strip(n) ==
  IF n.k = "grp" THEN Strip(n.c[1])
  ELSE Node(n.k, n.op, [j \in 1..Len(n.c) |-> Strip(n.c[j])])

=============================================================================
