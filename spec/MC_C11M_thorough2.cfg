SPECIFICATION Spec
CONSTANTS
  MaxStmts = 2
  MutKinds = {}
  Export = TRUE
INVARIANT Inv
CHECK_DEADLOCK FALSE
