SPECIFICATION Spec
CONSTANT Shards = 16
INVARIANT Judge
POSTCONDITION Accepted
CHECK_DEADLOCK FALSE
