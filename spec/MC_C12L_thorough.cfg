SPECIFICATION Spec
CONSTANTS
  MaxAtoms = 5
  Export = TRUE
INVARIANT Inv
CHECK_DEADLOCK FALSE
