SPECIFICATION Spec
CONSTANTS
  MaxInst = 2
  NestDepth = 14
  SpineDepth = 0
  NestableOnly = TRUE
  Export = TRUE
INVARIANT Inv
CHECK_DEADLOCK FALSE
