------------------------------ MODULE MC_C10 ------------------------------
(* Model-checking front end for C10: ALL byte strings up to MaxLen over     *)
(* several class-representative alphabets.  In every state the lexer model  *)
(* is run on the string, the declarative property P_C10 is checked on the   *)
(* model's tokens (design level), and the case is exported for replay on    *)
(* the real lexer.                                                          *)
EXTENDS XjsLexer, Json

CONSTANTS MaxLen, Alphabets, Extra, RepMax, Export

VARIABLES src, alpha
vars == <<src, alpha>>

\* repetition strings: prefix \o c^k \o suffix for k up to RepMax - lexemes whose scanners count
\* (hex digits of \u{...}, digits, operator runs, escapes) are driven past their thresholds
RECURSIVE Pow(_, _)
Pow(c, k) == IF k = 0 THEN <<>> ELSE c \o Pow(c, k - 1)
RepTriples ==
  { <<<<34, 92, 117, 123>>, <<48>>, <<52, 49, 125, 34>>>>,        \* "\u{0...041}"
    <<<<34, 92, 117, 123>>, <<70>>, <<125, 34>>>>,                \* "\u{F...F}"
    <<<<39, 92, 120>>, <<52>>, <<39>>>>,                          \* '\x4...'
    <<<<34, 92, 117>>, <<48>>, <<34>>>>,                          \* "\u0..."
    <<<<>>, <<49>>, <<>>>>, <<<<48, 120>>, <<70>>, <<>>>>, <<<<48, 98>>, <<49>>, <<>>>>, <<<<49, 101>>, <<57>>, <<>>>>,
    <<<<49, 46>>, <<48>>, <<>>>>, <<<<49>>, <<95, 48>>, <<>>>>,
    <<<<>>, <<61>>, <<>>>>, <<<<>>, <<43>>, <<>>>>, <<<<>>, <<45>>, <<97>>>>, <<<<>>, <<38>>, <<>>>>, <<<<97>>, <<33>>, <<61>>>>,
    <<<<96>>, <<92>>, <<96>>>>, <<<<96>>, <<92, 96>>, <<96>>>>, <<<<34>>, <<92>>, <<34>>>>,
    <<<<47, 47>>, <<32>>, <<10, 97>>>>, <<<<97>>, <<10>>, <<98>>>>, <<<<97>>, <<13, 10>>, <<98>>>>, <<<<97>>, <<13>>, <<98>>>>,
    <<<<239, 187, 191>>, <<97>>, <<>>>>, <<<<35, 33>>, <<97>>, <<10, 98>>>>, <<<<>>, <<239, 187, 191>>, <<97>>>>,
    <<<<108, 101, 116, 32>>, <<195, 169>>, <<32, 61>>>>, <<<<34>>, <<226, 128, 168>>, <<34, 32, 97>>>> }
Reps == {tr[1] \o Pow(tr[2], k) \o tr[3] : tr \in RepTriples, k \in 0..RepMax}

Init == \/ src = <<>> /\ alpha \in 1..Len(Alphabets)
        \/ alpha = 0 /\ src \in Reps
Next == /\ alpha > 0 /\ Len(src) < MaxLen[alpha]
        /\ \E b \in Alphabets[alpha] : src' = Append(src, b)
        /\ UNCHANGED alpha
Spec == Init /\ [][Next]_vars

Proj(t) == [ty |-> t.ty, lit |-> t.lit, sl |-> t.sl, sc |-> t.sc, el |-> t.el, ec |-> t.ec,
            nl |-> t.nl, lead |-> t.lead]
ModelToks == LexAll(src, Extra)

\* the model's tokens satisfy the property
InvP(toks) == C10_Failures(src, toks) = {}

\* ghost offsets agree with line/column bookkeeping
InvGhost(toks) == \A i \in 1..Len(toks) :
              LET t == toks[i] IN
              /\ OffsetOf(src, t.sl, t.sc) = t.so
              /\ OffsetOf(src, t.el, t.ec) = t.eo

\* maximal munch on words: a word token is never directly followed by an identifier byte
InvMunch(toks) == \A i \in 1..Len(toks) :
              LET t == toks[i] IN
              (t.ty \in {"IDENT"} \cup KeywordTypes) => Ch(src, t.eo) \notin IdentPartSet

InvExport(toks) == Export =>
  PrintT(ToJson([src |-> src, toks |-> [i \in 1..Len(toks) |-> Proj(toks[i])]]))

\* one evaluation of the model per state
Inv == LET toks == ModelToks IN
       /\ Assert(InvP(toks), <<"InvP", src>>)
       /\ Assert(InvGhost(toks), <<"InvGhost", src>>)
       /\ Assert(InvMunch(toks), <<"InvMunch", src>>)
       /\ InvExport(toks)

\* alphabets (bytes): operators; strings and escapes; numbers; whitespace, comments, odd bytes
AOps  == {61, 33, 60, 62, 38, 124, 43, 45, 47, 40, 97, 49, 10}
AStr  == {34, 39, 92, 120, 117, 123, 125, 52, 49, 97, 96, 10}
ANum  == {48, 49, 57, 120, 98, 111, 101, 46, 43, 97, 102, 69, 95}
AWs   == {32, 9, 13, 10, 47, 97, 0, 195, 169, 59, 34, 108, 101, 116}
AKw   == {105, 102, 32, 108, 101, 116, 59, 10, 114, 110, 117}
MCAlphabets == <<AOps, AStr, ANum, AWs, AKw>>
QMaxLen == <<3, 4, 4, 3, 3>>
TMaxLen == <<5, 5, 5, 4, 5>>
=============================================================================
