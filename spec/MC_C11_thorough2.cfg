SPECIFICATION Spec
CONSTANTS
  MaxLen = 5
  Kinds <- SKinds
  Export = TRUE
INVARIANT Inv
CHECK_DEADLOCK FALSE
