SPECIFICATION Spec
CONSTANTS
  MaxAtoms = 3
  Export = TRUE
INVARIANT Inv
CHECK_DEADLOCK FALSE
