SPECIFICATION Spec
CONSTANTS
  Sizes = {9, 17, 34, 130, 260}
  BigSizes = {520, 1030}
  DeepSizes = {1100}
  ModelUpTo = 40
  Export = TRUE
INVARIANT Inv
CHECK_DEADLOCK FALSE
