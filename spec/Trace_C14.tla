----------------------------- MODULE Trace_C14 -----------------------------
(* Validation of executions recorded from REAL instances.                   *)
(* part = "sched": {id, jobs, solo, inter, after}: every job's result when   *)
(*   run alone, when interleaved with the other jobs according to a schedule *)
(*   exported by MC_C14 (call and token granularity), and when run alone     *)
(*   again afterwards.  Verdict: inter = solo = after for every job, and     *)
(*   parsers built repeatedly from one unchanged builder return one result.  *)
(* part = "orders": {id, order, shared, fresh, tree_unchanged, debug,        *)
(*   compact, stmts, stmts_compact}.  Verdict: compiling a shared tree in    *)
(*   any order gives what compiling a fresh tree alone gives; the tree is    *)
(*   not modified; a source map does not change the code; the debug string   *)
(*   of a node is its compact compilation.                                   *)
EXTENDS Integers, Sequences, FiniteSets, TLC, Json, IOUtils

CONSTANT Shards
Trace == ndJsonDeserialize(IOEnv.VERIF_TRACE)
N == Len(Trace)

VARIABLE t
Init == t \in 1..(IF N < Shards THEN N ELSE Shards)
Next == t + Shards <= N /\ t' = t + Shards
Spec == Init /\ [][Next]_t

Changes(o) == o[1] \in {"tok", "prefix", "infix", "postfix", "inst", "mode"}
\* A parser is configured when it is built: by the last explicit "build" since the previous parse, or
\* else by the parse call itself.  BuildPos: for every parse call (in order) the index of that op.
RECURSIVE BuildPos(_, _, _, _)
BuildPos(ops, i, pending, acc) ==
  IF i > Len(ops) THEN acc
  ELSE IF ops[i][1] = "build" THEN BuildPos(ops, i + 1, i, acc)
  ELSE IF ops[i][1] = "parse" THEN BuildPos(ops, i + 1, 0, Append(acc, IF pending > 0 THEN pending ELSE i))
  ELSE BuildPos(ops, i + 1, pending, acc)
\* pairs of consecutive parse calls whose parsers were built with no change of the builder in between
RepeatPairs(ops, i, nparse, lastClean, acc) ==
  LET bp == BuildPos(ops, 1, 0, <<>>) IN
  {<<k, k + 1>> : k \in {m \in 1..(Len(bp) - 1) : \A x \in bp[m]..bp[m + 1] : ~Changes(ops[x])}}

SchedFailures(r) ==
  (IF \A j \in 1..Len(r.jobs) : r.inter[j] = r.solo[j] THEN {} ELSE {"result_depends_on_other_instances"})
  \cup (IF \A j \in 1..Len(r.jobs) : r.after[j] = r.solo[j] THEN {} ELSE {"result_changed_after_other_instances_ran"})
  \cup (IF \A j \in 1..Len(r.jobs) : \A pr \in RepeatPairs(r.jobs[j].ops, 1, 0, 0, {}) :
              pr[2] > Len(r.solo[j].trees) \/ r.solo[j].trees[pr[1]] = r.solo[j].trees[pr[2]]
        THEN {} ELSE {"parsers_of_one_builder_differ"})
  \* a parser is configured at Build() time: what is done to its builder afterwards does not reach it
  \* (refs[k]: the same parse by a parser of a fresh builder in the build-time configuration)
  \cup (IF \A j \in 1..Len(r.jobs) : \A k \in 1..Len(r.solo[j].refs) :
              r.solo[j].refs[k] = "" \/ k > Len(r.solo[j].trees) \/ r.solo[j].refs[k] = r.solo[j].trees[k]
        THEN {} ELSE {"parser_follows_later_changes_of_its_builder"})

CodeOf(s) == s.code
OrderFailures(r) ==
  (IF \A k \in 1..Len(r.order) : r.shared[k] = r.fresh[k] THEN {} ELSE {"compilation_depends_on_earlier_compilations"})
  \cup (IF r.tree_unchanged THEN {} ELSE {"compile_modified_the_tree"})
  \cup (IF \A k, m \in 1..Len(r.order) : r.order[m] = r.order[k] \o "+map" => r.shared[m].code = r.shared[k].code
        THEN {} ELSE {"source_map_changes_the_code"})
  \cup (IF r.debug = r.compact /\ r.stmts = r.stmts_compact THEN {} ELSE {"debug_string_differs_from_compact_output"})

Judge ==
  LET r == Trace[t]
      f == IF r.part = "sched" THEN SchedFailures(r) ELSE OrderFailures(r)
  IN f = {} \/ PrintT(<<"FAIL", r.id, f>>)

Accepted == (TLCGet("distinct") = N) \/ PrintT(<<"REJECTED", TLCGet("distinct"), N>>)
=============================================================================
