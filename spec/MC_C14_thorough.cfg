SPECIFICATION Spec
CONSTANTS
  MaxSlots = 5
  MaxOrder = 4
  Triples <- TTriples
  Export = TRUE
INVARIANT Inv
PROPERTIES GlobalsNeverChange NonInterference
CHECK_DEADLOCK FALSE
