------------------------------ MODULE MC_C14 ------------------------------
(* Instances and globals.  The package-level state of xjs (the binding-power *)
(* table `precedences`, the keyword table) is the variable G; every builder, *)
(* lexer, parser and compiler instance belongs to one job and lives in       *)
(* loc[j].  A job is a script of public API calls; Step(j) performs the next *)
(* call of job j - or, inside ParseProgram, pulls the next token - and may   *)
(* only read G and write loc[j]:                                             *)
(*   GlobalsNeverChange  == [][G' = G]_vars                                  *)
(*   NonInterference     == a step of job j leaves loc[k], k # j, unchanged  *)
(*   BuildCopies         == a parser's table is G's table plus its builder's *)
(*                          registrations AT BUILD TIME                      *)
(* TLC explores every interleaving of the first MaxSlots steps of the jobs   *)
(* of every pair (and sampled triples) of the pool and exports each schedule *)
(* for deterministic replay on real instances; and every order of <=         *)
(* MaxOrder compilations out of the configuration pool on one tree.          *)
EXTENDS Integers, Sequences, FiniteSets, TLC, Json

CONSTANTS MaxSlots, MaxOrder, Triples, Export

\* ---- job pool: [src, ops]; ops as the harness understands them -------------------------------
Op1(a) == <<a>>
Jobs ==
  << [src |-> "let a = b * 2\nf(a)", ops |-> <<<<"build">>, <<"parse">>, <<"compile", "compact">>>>],
     [src |-> "let a = 5 !\na ! b", ops |-> <<<<"postfix", "NOT">>, <<"build">>, <<"parse">>, <<"compile", "compact">>>>],
     [src |-> "a ! b\nlet c = ! a", ops |-> <<<<"mode", FALSE, TRUE>>, <<"build">>, <<"parse">>, <<"compile", "pretty:default:semi">>>>],
     [src |-> "x = a ^ b * c ^ d", ops |-> <<<<"tok", "DYN0">>, <<"infix", "DYN0", 8>>, <<"build">>, <<"parse">>, <<"compile", "compact+map">>>>],
     [src |-> "x = a ^ b * c", ops |-> <<<<"tok", "DYN0">>, <<"infix", "DYN0", 3>>, <<"tok", "DYN1">>, <<"parse">>, <<"compile", "compact">>>>],
     [src |-> "mark\nlet a = 1 let b = 2", ops |-> <<<<"inst", "m">>, <<"inst", "m">>, <<"mode", TRUE, FALSE>>, <<"build">>, <<"parse">>, <<"build">>, <<"parse">>, <<"build">>, <<"parse">>>>],
     [src |-> "f(a)\n(b)\n@ a", ops |-> <<<<"tok", "DYN1">>, <<"prefix", "DYN1">>, <<"inst", "r">>, <<"inst", "s">>, <<"mode", FALSE, TRUE>>, <<"parse">>, <<"mode", FALSE, FALSE>>, <<"parse">>>>],
     [src |-> "let s = \"caf\\xe9 \\u00e9 \\u{1F600}\" + 'x\\x41'\nprint(s)", ops |-> <<<<"parse">>, <<"compile", "compact">>, <<"compile", "pretty:tab:nosemi">>>>],
     \* a parser built first, its builder reconfigured / extended afterwards, the parser used after that
     [src |-> "let a = 1 let b = 2\n(c)\n{ d", ops |-> <<<<"mode", TRUE, TRUE>>, <<"build">>, <<"mode", FALSE, FALSE>>, <<"parse">>,
                                                        <<"build">>, <<"mode", TRUE, FALSE>>, <<"parse">>, <<"compile", "compact">>>>],
     [src |-> "mark\nx = a ^ b ! c", ops |-> <<<<"tok", "DYN0">>, <<"build">>, <<"infix", "DYN0", 8>>, <<"inst", "m">>, <<"postfix", "NOT">>, <<"parse">>,
                                              <<"build">>, <<"parse">>>>],
     [src |-> "a + b ( c ) : d", ops |-> <<<<"infix", "COLON", 2>>, <<"prefix", "MULTIPLY">>, <<"parse">>, <<"compile", "pretty:tab:nosemi+map">>, <<"compile", "compact">>>>] >>

\* tokens the parser pulls for a source of the pool (current + peek primed at Build, one per NextToken)
NTok(j) == 14
IsParse(o) == o[1] = "parse"
\* slots of a job: one per API call, a parse call takes 1 + NTok further slots
RECURSIVE SlotsFrom(_, _)
SlotsFrom(ops, i) == IF i > Len(ops) THEN 0 ELSE (IF IsParse(ops[i]) THEN 1 + NTok(0) ELSE 1) + SlotsFrom(ops, i + 1)
Slots(j) == SlotsFrom(Jobs[j].ops, 1)

CfgPool == <<"compact", "compact+map", "pretty:default:semi", "pretty:default:semi+map", "pretty:tab:nosemi", "pretty:tab:nosemi+map">>

VARIABLES G, loc, part, members, sched, order
vars == <<G, loc, part, members, sched, order>>

G0 == [precedences |-> "builtin-table", keywords |-> "builtin-keywords"]
Loc0 == [pc |-> 0, regs |-> {}, table |-> "none"]

Init ==
  /\ G = G0 /\ sched = <<>> /\ order = <<>>
  /\ \/ /\ part = "sched"
        /\ members \in {<<a, b>> : a, b \in 1..Len(Jobs)} \cup {<<x[1], x[2], x[3]>> : x \in Triples}
        /\ loc = [j \in 1..Len(members) |-> Loc0]
     \/ part = "orders" /\ members = <<>> /\ loc = <<>>

\* one step of the job at position j of members
Step(j) ==
  /\ part = "sched" /\ loc[j].pc < MaxSlots /\ loc[j].pc < Slots(members[j])
  /\ loc' = [loc EXCEPT ![j] = [@ EXCEPT !.pc = @ + 1,
                                         !.regs = @ \cup {<<members[j], loc[j].pc>>},
                                         !.table = <<G.precedences, loc[j].regs>>]]     \* Build COPIES G's table
  /\ sched' = Append(sched, j - 1)
  /\ UNCHANGED <<G, part, members, order>>

AddCompile ==
  /\ part = "orders" /\ Len(order) < MaxOrder
  /\ \E c \in 1..Len(CfgPool) : order' = Append(order, CfgPool[c])
  /\ UNCHANGED <<G, loc, part, members, sched>>

Next == (\E j \in 1..Len(members) : Step(j)) \/ AddCompile
Spec == Init /\ [][Next]_vars

GlobalsNeverChange == [][G' = G]_vars
NonInterference == [][\A j \in DOMAIN loc : \A k \in DOMAIN loc : (k # j /\ loc'[j] # loc[j]) => loc'[k] = loc[k]]_vars

QTriples == {<<2, 1, 3>>}
TTriples == {<<2, 1, 3>>, <<4, 5, 1>>, <<6, 7, 8>>}

Complete == part = "sched" /\ \A j \in 1..Len(members) : loc[j].pc = MaxSlots \/ loc[j].pc = Slots(members[j])
Inv ==
  /\ (Export /\ Complete) => PrintT(ToJson([part |-> "sched", jobs |-> [j \in 1..Len(members) |-> Jobs[members[j]]], order |-> sched]))
  /\ (Export /\ part = "orders" /\ Len(order) > 0) => PrintT(ToJson([part |-> "orders", order |-> order]))
=============================================================================
