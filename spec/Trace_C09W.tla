----------------------------- MODULE Trace_C09W -----------------------------
(* C09 for values beyond TLC's 32-bit integers (the Go API takes 64-bit      *)
(* ints).  A Base64 VLQ quantity is defined on ARBITRARY magnitudes: the     *)
(* magnitude is given as its binary digits (least significant first, no      *)
(* leading zero), so the reference encoding needs no large integer:          *)
(*   digit 1   = sign + 2 * (bits 1..4) [+ 32 if more bits follow]           *)
(*   digit k+1 = the next five bits      [+ 32 if more bits follow]          *)
(* Each record is one execution of the REAL SourceMapper on the history      *)
(*   AddMapping(V, V) ; AddMapping(0, 0)                                     *)
(* (both segments at generated position 0:0), i.e. the deltas +V, +V and     *)
(* then -V, -V; the `mappings` string it produced must be exactly            *)
(*   "AA" VLQ(+V) VLQ(+V) "," "AA" VLQ(-V) VLQ(-V)                           *)
(* (first field: generated column delta 0, second: source index 0).          *)
EXTENDS XjsSourceMap, Json, IOUtils

CONSTANT Shards
Trace == ndJsonDeserialize(IOEnv.VERIF_TRACE)
N == Len(Trace)

VARIABLE t
\* (the mapper machine's variables come with XjsSourceMap; they are not used here)
Init == t \in 1..(IF N < Shards THEN N ELSE Shards) /\ SMInit
Next == t + Shards <= N /\ t' = t + Shards /\ UNCHANGED <<gl, gc, maps, names>>
Spec == Init /\ [][Next]_<<t, gl, gc, maps, names>>

RECURSIVE BitsVal(_)
BitsVal(bs) == IF bs = <<>> THEN 0 ELSE Head(bs) + 2 * BitsVal(Tail(bs))
Take(bs, k) == SubSeq(bs, 1, IF Len(bs) < k THEN Len(bs) ELSE k)
Drop(bs, k) == IF Len(bs) <= k THEN <<>> ELSE SubSeq(bs, k + 1, Len(bs))
RECURSIVE Groups5(_)
Groups5(bs) == IF bs = <<>> THEN <<>>
               ELSE <<BitsVal(Take(bs, 5)) + (IF Drop(bs, 5) # <<>> THEN 32 ELSE 0)>> \o Groups5(Drop(bs, 5))
\* the Base64 VLQ digits of the quantity with the given sign and magnitude bits
WideVLQ(neg, bits) ==
  <<(IF neg THEN 1 ELSE 0) + 2 * BitsVal(Take(bits, 4)) + (IF Drop(bits, 4) # <<>> THEN 32 ELSE 0)>> \o Groups5(Drop(bits, 4))
WideStr(neg, bits) == DigitsToString(WideVLQ(neg, bits))

\* on 32-bit values the wide definition is the definition used everywhere else in the specification
RECURSIVE BitsOf(_)
BitsOf(n) == IF n = 0 THEN <<>> ELSE <<n % 2>> \o BitsOf(n \div 2)
ASSUME \A n \in 1..5000 : WideVLQ(FALSE, BitsOf(n)) = VLQEnc(n) /\ WideVLQ(TRUE, BitsOf(n)) = VLQEnc(-n)

Expected(r) == "AA" \o WideStr(FALSE, r.bits) \o WideStr(FALSE, r.bits) \o ",AA" \o WideStr(TRUE, r.bits) \o WideStr(TRUE, r.bits)
Judge == LET r == Trace[t] IN
         /\ (r.real.version = 3 \/ PrintT(<<"FAIL", r.id, 0, "version">>))
         /\ (r.real.mappings = Expected(r) \/ PrintT(<<"FAIL", r.id, 0, "mappings">>))
Accepted == (TLCGet("distinct") = N) \/ PrintT(<<"REJECTED", TLCGet("distinct"), N>>)
=============================================================================
