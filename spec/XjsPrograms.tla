----------------------------- MODULE XjsPrograms -----------------------------
(***************************************************************************)
(* The program space shared by the model-checking front ends: expression   *)
(* spines (every parent/child operator pair and side, bottom-up through    *)
(* Wraps), statement contexts for an expression, and statement templates.  *)
(***************************************************************************)
EXTENDS XjsGrammar

Atoms == {A, Num("1"), Node("str", "s", <<>>)}
BinOps == {"||", "&&", "==", "!=", "<", ">", "<=", ">=", "+", "-", "*", "/", "%"}

Wraps(x) ==
  {Bin(op, x, B) : op \in BinOps} \cup {Bin(op, B, x) : op \in BinOps}
  \cup {Node("un", op, <<x>>) : op \in {"!", "-"}}
  \cup (IF IsTarget(x)
        THEN {Node("un", "++", <<x>>), Node("un", "--", <<x>>), Node("post", "++", <<x>>), Node("post", "--", <<x>>),
              Node("asg", "=", <<x, B>>), Node("casg", "+=", <<x, B>>), Node("casg", "-=", <<x, B>>)}
        ELSE {})
  \cup {Node("asg", "=", <<B, x>>), Node("casg", "+=", <<B, x>>), Node("casg", "-=", <<B, x>>)}
  \cup {Node("mem", "", <<x, Id("p")>>)}
  \cup {Node("call", "", <<x>>), Node("call", "", <<x, B>>), Node("idx", "", <<x, B>>),
        Node("call", "", <<B, x>>), Node("call", "", <<B, B, x>>), Node("idx", "", <<B, x>>),
        Node("arr", "", <<x>>), Node("arr", "", <<B, x>>), Node("obj", "", <<Id("k"), x>>),
        Fn(Nil, <<>>, <<Ret(x)>>)}

\* statement contexts for an expression e
Ctx(c, e) ==
  CASE c = 1 -> Prog(<<E(e)>>)
    [] c = 2 -> Prog(<<Let("x", e)>>)
    [] c = 3 -> Prog(<<E(A), E(e), E(B)>>)
    [] c = 4 -> Prog(<<Node("fdecl", "", <<Id("f"), PList(<<Id("p")>>), Blk(<<Ret(e)>>)>>)>>)
    [] c = 5 -> Prog(<<Node("if", "", <<e, Blk(<<E(A)>>), Nil>>)>>)
    [] c = 6 -> Prog(<<Node("while", "", <<e, E(B)>>)>>)
    [] c = 7 -> Prog(<<Node("for", "", <<Node("lete", "", <<Id("i"), e>>), e, e, Blk(<<>>)>>)>>)
    [] c = 8 -> Prog(<<Node("if", "", <<A, E(e), E(e)>>)>>)

Templates ==
  { E(A), E(Node("call", "", <<Id("f"), A>>)), E(Node("asg", "=", <<A, Bin("+", B, Num("1"))>>)),
    E(Node("post", "++", <<A>>)), E(Node("un", "++", <<A>>)), E(Node("un", "-", <<A>>)), E(Node("un", "!", <<A>>)),
    E(Node("call", "", <<Grp(Fn(Nil, <<>>, <<>>))>>)), E(Node("idx", "", <<Node("arr", "", <<A>>), Num("0")>>)),
    E(Node("raw", "r", <<>>)), E(Node("str", "s", <<>>)),
    Let("x", Nil), Let("x", Num("1")), Let("g", Fn(Nil, <<Id("p")>>, <<Ret(Id("p"))>>)),
    Let("o", Node("obj", "", <<Id("k"), Num("1")>>)), Let("x", Node("post", "--", <<A>>)),
    Ret(Nil), Ret(A), Ret(Node("call", "", <<Id("f")>>)),
    Blk(<<E(A)>>), Blk(<<>>),
    If(A, E(B), Nil), If(A, E(B), E(Id("c"))), If(A, Blk(<<E(B)>>), Blk(<<E(Id("c"))>>)),
    If(A, E(B), If(Id("c"), E(Id("d")), Nil)), If(A, Ret(Nil), Nil),
    Node("while", "", <<A, E(Node("post", "++", <<A>>))>>), Node("while", "", <<A, Blk(<<E(B)>>)>>),
    Node("for", "", <<Node("lete", "", <<Id("i"), Num("0")>>), Bin("<", Id("i"), Num("2")), Node("post", "++", <<Id("i")>>), E(A)>>),
    Node("for", "", <<Nil, Nil, Nil, Blk(<<>>)>>),
    Node("for", "", <<Node("asg", "=", <<Id("i"), Num("0")>>), Nil, Nil, E(A)>>),
    Node("fdecl", "", <<Id("f"), PList(<<Id("p"), Id("q")>>), Blk(<<Ret(Id("p"))>>)>>),
    E(Node("idx", "", <<Node("raw", "a\nb", <<>>), Num("0")>>)), Let("s", Node("raw", "a\nb", <<>>)),
    Let("n", Node("mem", "", <<A, Id("p")>>)),
    If(A, E(B), Node("fdecl", "", <<Id("z"), PList(<<>>), Blk(<<>>)>>)),
    E(Node("mem", "", <<Node("mem", "", <<A, Node("bool", "true", <<>>)>>), Node("null", "", <<>>)>>)),
    E(Bin("+", Node("un", "-", <<A>>), B)),
    Let("y", Node("arr", "", <<Num("1"), Bin("*", Node("un", "!", <<A>>), Num("2"))>>)),
    E(Node("call", "", <<Id("f"), Bin("-", Node("un", "-", <<A>>), B), Id("c")>>)),
    \* the value of a (compound) assignment begins with a bracket / sign and goes on with an operator
    E(Node("casg", "+=", <<A, Bin("+", Node("un", "-", <<A>>), B)>>)),
    E(Node("casg", "-=", <<A, Bin("*", Grp(Bin("+", A, B)), Id("c"))>>)),
    E(Node("casg", "+=", <<A, Bin("+", Node("idx", "", <<Node("arr", "", <<Num("1")>>), Num("0")>>), B)>>)),
    E(Node("asg", "=", <<A, Bin("-", Node("un", "++", <<B>>), Id("c"))>>)),
    \* update / assignment targets that END in a member access or subscript of a call: one deleted
    \* token (`.`, `[`) turns the operand into a call, which is not a target
    E(Node("un", "--", <<Node("mem", "", <<Node("call", "", <<A, Id("c")>>), Id("d")>>)>>)),
    E(Node("post", "++", <<Node("idx", "", <<Node("call", "", <<Id("f")>>), Num("0")>>)>>)),
    E(Node("asg", "=", <<Node("mem", "", <<Node("call", "", <<Id("f"), A>>), Id("p")>>), B>>)) }


\* `return` outside a function is not JavaScript: such statement lists are used as function bodies only
RECURSIVE HasReturn(_)
HasReturn(s) ==
  \/ s.k = "ret"
  \/ s.k \in {"if", "while", "for", "blk"} /\ \E j \in 1..Len(s.c) : ~IsNilNode(s.c[j]) /\ IsStmtKind(s.c[j].k) /\ HasReturn(s.c[j])

\* statement lists that may stand at the top level (no return outside a function)
TopOK(ss) == \A j \in 1..Len(ss) : ~HasReturn(ss[j])

\* all statement sequences of length n over Templates, as a set of tuples
RECURSIVE StmtSeqs(_)
StmtSeqs(n) == IF n = 0 THEN {<<>>} ELSE {Append(s, x) : s \in StmtSeqs(n - 1), x \in Templates}

\* every spine of depth exactly n over Atoms
RECURSIVE Spines(_)
Spines(n) == IF n = 0 THEN Atoms ELSE UNION {Wraps(x) : x \in Spines(n - 1)}
=============================================================================
