------------------------------ MODULE MC_Scale ------------------------------
(* Scaled instances of the program space: the same constructs as            *)
(* XjsPrograms, repeated or nested n times for n in Sizes (size, depth and  *)
(* count thresholds lie beyond what exhaustive small-scope enumeration      *)
(* reaches: 8, 16, 32, 100, 256, 512, 1000).  One state per (family, n);    *)
(* the tree is rendered by the reference unparser and exported with the     *)
(* tree itself; for n <= ModelUpTo the parser model is run on it too and    *)
(* must return the tree (design level).                                     *)
EXTENDS XjsPrograms, Json

CONSTANTS Sizes, BigSizes, DeepSizes, ModelUpTo, Export

VARIABLES fam, n
vars == <<fam, n>>

Families == {"rep_call0", "rep_call1", "rep_arr0", "rep_marked", "nest_blk", "nest_if", "nest_fn", "nest_fnexpr", "nest_call",
             "nest_paren", "nest_arr", "nest_not", "nest_asg", "nest_obj", "chain_plus", "chain_mem", "chain_call", "many_names",
             "rep_let_fn", "nest_while_call", "long_str", "long_ident", "bad_let", "bad_call", "rep_if_else",
             "blk_fn", "if_fnexpr", "fn_blk_fn", "while_fnarg"}
\* families whose instances are cheap: they also take the sizes in BigSizes
BigFams == {"rep_call0", "rep_call1", "rep_marked", "bad_let", "bad_call", "long_str", "chain_plus", "many_names"}

\* nestings that also take the sizes in DeepSizes (beyond limits of about a thousand open constructs)
DeepFams == {"nest_blk", "nest_fn", "nest_paren", "nest_arr"}

\* one initial state; every (family, n) is a successor, so that TLC's workers share the work
Init == fam = "none" /\ n = 0
Next == \/ fam = "none" /\ fam' \in Families /\ n' = 0
        \/ fam # "none" /\ n = 0 /\ n' \in (Sizes \cup (IF fam \in BigFams THEN BigSizes ELSE {}) \cup (IF fam \in DeepFams THEN DeepSizes ELSE {})) /\ UNCHANGED fam
Spec == Init /\ [][Next]_vars

Call(f, args) == Node("call", "", <<f>> \o args)
V(k) == Id("v" \o ToString(k))
RECURSIVE Nest(_, _, _)
\* k-fold application of wrapper W (an operator of one argument) around x
Nest(W(_), x, k) == IF k = 0 THEN x ELSE W(Nest(W, x, k - 1))
RECURSIVE RepSeq(_, _)
RepSeq(s, k) == IF k = 0 THEN <<>> ELSE Append(RepSeq(s, k - 1), s)
RECURSIVE SumOf(_)
SumOf(k) == IF k = 1 THEN V(1) ELSE Bin("+", SumOf(k - 1), V(k))
RECURSIVE MemChain(_)
MemChain(k) == IF k = 0 THEN A ELSE Node("mem", "", <<MemChain(k - 1), Id("p")>>)
RECURSIVE CallChain(_)
CallChain(k) == IF k = 0 THEN Id("f") ELSE Call(CallChain(k - 1), <<>>)

WBlk(x) == <<Blk(x)>>
WIf(x) == <<If(A, Blk(x), Nil)>>
WFn(x) == <<Node("fdecl", "", <<Id("f"), PList(<<>>), Blk(x)>>), E(B)>>
WFnExpr(x) == <<E(Call(Id("g"), <<Fn(Nil, <<>>, x), B>>))>>
WWhileCall(x) == <<Node("while", "", <<A, Blk(<<E(Call(Id("g"), <<Node("arr", "", <<Fn(Nil, <<>>, x)>>)>>))>>)>>)>>
WCall(x) == Call(Id("f"), <<x>>)
WParen(x) == Grp(x)
WArr(x) == Node("arr", "", <<x>>)
WNot(x) == Node("un", "!", <<x>>)
WAsg(x) == Node("asg", "=", <<A, x>>)
WObj(x) == Node("obj", "", <<Id("k"), x>>)

RECURSIVE RepStr(_, _)
RepStr(s, k) == IF k = 0 THEN "" ELSE RepStr(s, k - 1) \o s
Malformed == fam \in {"bad_let", "bad_call"}
\* malformed families: token lists, n repetitions of a statement that cannot be parsed
BadToks ==
  LET one == IF fam = "bad_let"
             THEN <<[ty |-> "LET", lit |-> "", nl |-> TRUE], [ty |-> "ASSIGN", lit |-> "", nl |-> FALSE],
                    [ty |-> "INT", lit |-> "1", nl |-> FALSE], [ty |-> "SEMICOLON", lit |-> "", nl |-> FALSE]>>
             ELSE <<[ty |-> "IDENT", lit |-> "f", nl |-> TRUE], [ty |-> "LPAREN", lit |-> "", nl |-> FALSE],
                    [ty |-> "IDENT", lit |-> "a", nl |-> FALSE], [ty |-> "COMMA", lit |-> "", nl |-> FALSE], [ty |-> "SEMICOLON", lit |-> "", nl |-> FALSE]>>
      RECURSIVE RepT(_)
      RepT(k) == IF k = 0 THEN <<>> ELSE RepT(k - 1) \o one
  IN RepT(n) \o <<[ty |-> "EOF", lit |-> "", nl |-> TRUE]>>

Tree ==
  CASE fam = "long_str" -> Prog(<<Let("x", Bin("+", Node("str", RepStr("a", n), <<>>), B)), E(A)>>)
    [] fam = "long_ident" -> Prog(<<Let(RepStr("q", n), A), E(Id(RepStr("q", n)))>>)
    [] fam = "rep_if_else" -> Prog(RepSeq(If(A, E(B), If(B, Blk(<<E(A)>>), E(Id("c")))), n))
    [] fam = "rep_call0" -> Prog(RepSeq(E(Call(Id("f"), <<>>)), n))
    [] fam = "rep_call1" -> Prog(RepSeq(E(Call(Id("f"), <<A>>)), n))
    [] fam = "rep_arr0" -> Prog(RepSeq(Let("x", Node("arr", "", <<>>)), n))
    [] fam = "rep_marked" -> Prog(RepSeq(E(Node("post", "++", <<A>>)), n))
    [] fam = "rep_let_fn" -> Prog(RepSeq(Let("g", Fn(Nil, <<Id("p")>>, <<Ret(Id("p"))>>)), n))
    [] fam = "nest_blk" -> Prog(Nest(WBlk, <<E(A)>>, n))
    [] fam = "nest_if" -> Prog(Nest(WIf, <<E(A)>>, n))
    [] fam = "nest_fn" -> Prog(Nest(WFn, <<Ret(A)>>, n))
    [] fam = "nest_fnexpr" -> Prog(Nest(WFnExpr, <<Ret(A)>>, n))
    [] fam = "nest_while_call" -> Prog(<<Node("fdecl", "", <<Id("f"), PList(<<>>), Blk(Nest(WWhileCall, <<Ret(A)>>, n))>>)>>)
    \* cross nesting: a construct of one kind at the bottom of n levels of ANOTHER kind (a function below n
    \* blocks / ifs / loops; a function inside n blocks inside a function), with siblings after the way out
    [] fam = "blk_fn" -> Prog(Nest(WBlk, <<Node("fdecl", "", <<Id("h"), PList(<<Id("p")>>), Blk(<<E(A), Ret(Id("p"))>>)>>), E(B)>>, n))
    [] fam = "if_fnexpr" -> Prog(Nest(WIf, <<E(Call(Id("g"), <<Fn(Nil, <<>>, <<E(B), E(Node("asg", "=", <<A, B>>))>>)>>)), E(A)>>, n) \o <<E(B)>>)
    [] fam = "fn_blk_fn" -> Prog(<<Node("fdecl", "", <<Id("f"), PList(<<>>),
                                   Blk(Nest(WBlk, <<Let("g", Fn(Nil, <<>>, <<Ret(A)>>)), Ret(B)>>, n))>>), E(A)>>)
    [] fam = "while_fnarg" -> Prog(Nest(LAMBDA x : <<Node("while", "", <<A, Blk(x)>>)>>,
                                       <<Let("o", Node("obj", "", <<Id("k"), Fn(Nil, <<>>, <<Ret(A)>>)>>)), E(B)>>, n))
    [] fam = "nest_call" -> Prog(<<E(Nest(WCall, A, n))>>)
    [] fam = "nest_paren" -> Prog(<<Let("x", Nest(WParen, A, n))>>)
    [] fam = "nest_arr" -> Prog(<<Let("x", Nest(WArr, A, n))>>)
    [] fam = "nest_not" -> Prog(<<Let("x", Nest(WNot, A, n))>>)
    [] fam = "nest_asg" -> Prog(<<E(Nest(WAsg, B, n))>>)
    [] fam = "nest_obj" -> Prog(<<Let("x", Nest(WObj, A, n))>>)
    [] fam = "chain_plus" -> Prog(<<Let("x", SumOf(n))>>)
    [] fam = "many_names" -> Prog(<<E(Call(Id("f"), [k \in 1..n |-> V(k)]))>>)
    [] fam = "chain_mem" -> Prog(<<E(MemChain(n))>>)
    [] fam = "chain_call" -> Prog(<<E(CallChain(n))>>)

Inv ==
  n = 0 \/
  IF Malformed THEN (Export => PrintT(ToJson([fam |-> fam, n |-> n, want |-> Nil, toks |-> BadToks])))
  ELSE
  LET p    == Tree
      ts   == RenderProg(p, FALSE, <<>>)
  IN \A sep \in {1, 3} :
       LET toks == Layout(ts, sep, {})
       IN /\ (n > ModelUpTo \/ LET r == ParseProgram(DefaultP(toks)) IN
                               (Len(r.errs) = 0 /\ Strip(r.tree) = Strip(p)) \/ PrintT(<<"MODELFAIL", fam, n>>))
          /\ (Export => PrintT(ToJson([fam |-> fam, n |-> n, want |-> Strip(p),
                                        toks |-> [j \in 1..Len(toks) |-> [ty |-> toks[j].ty, lit |-> toks[j].lit, nl |-> toks[j].nl]]])))
=============================================================================
