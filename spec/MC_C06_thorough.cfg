SPECIFICATION Spec
CONSTANTS
  MaxStmts = 2
  MaxDecorated = 2
  NTexts = 10
  Export = TRUE
INVARIANT Inv
CHECK_DEADLOCK FALSE
