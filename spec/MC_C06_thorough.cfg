SPECIFICATION Spec
CONSTANTS
  MaxStmts = 1
  MaxDecorated = 2
  NTexts = 12
  Export = TRUE
  Inner = TRUE
INVARIANT Inv
INVARIANT TripleInv
CHECK_DEADLOCK FALSE
