SPECIFICATION Spec
CONSTANTS
  Depth = 2
  MaxStmts = 2
  Contexts = {1, 2, 3, 4}
  DeepContexts = {3}
  DeepRed = {FALSE}
  SingleBreaksUpTo = 0
  Export = TRUE
INVARIANT Inv
CHECK_DEADLOCK FALSE
