SPECIFICATION Spec
CONSTANTS
  Names = {"DYN0", "dyn0"}
  BuiltinToks = {"PLUS", "NOT", "INCREMENT"}
  InfixLevels = {7}
  MaxCalls = 4
  Export = TRUE
INVARIANT Inv
PROPERTIES IdsStable RefusalChangesNothing
CHECK_DEADLOCK FALSE
