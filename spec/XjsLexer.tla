----------------------------- MODULE XjsLexer -----------------------------
(***************************************************************************)
(* The lexer of xjslang/xjs (lexer/lexer.go, base_functions.go,            *)
(* helpers.go) transcribed function by function, over source text as a     *)
(* sequence of bytes, plus the declarative tiling property P_C10.          *)
(*                                                                         *)
(* A cursor is <<p, line, col>>: p = 0-based byte offset of the current    *)
(* character (Lexer.position), line/col = Lexer.Line/Lexer.Column.         *)
(* CurrentChar is 0 past the end of the input - and also for a NUL byte    *)
(* inside the input; the scanners cannot tell the two apart, only          *)
(* baseNextToken does (position < len(input)).                             *)
(***************************************************************************)
EXTENDS Integers, Sequences, TLC

LF == 10
CR == 13
BSL == 92

IsWS(b)      == b \in {32, 9, 10, 13}
IsLetter(b)  == (97 <= b /\ b <= 122) \/ (65 <= b /\ b <= 90) \/ b = 95 \/ b = 36
IsDigit(b)   == 48 <= b /\ b <= 57
IsBinDigit(b) == b = 48 \/ b = 49
IsOctDigit(b) == 48 <= b /\ b <= 55
IsHex(b)     == IsDigit(b) \/ (97 <= b /\ b <= 102) \/ (65 <= b /\ b <= 70)
HexVal(b)    == IF IsDigit(b) THEN b - 48
                ELSE IF 97 <= b /\ b <= 102 THEN b - 87
                ELSE IF 65 <= b /\ b <= 70 THEN b - 55 ELSE 0

\* encodeUTF8 of helpers.go
UTF8(v) ==
  IF v <= 127 THEN <<v>>
  ELSE IF v <= 2047 THEN <<192 + (v \div 64), 128 + (v % 64)>>
  ELSE IF v <= 65535 THEN <<224 + (v \div 4096), 128 + ((v \div 64) % 64), 128 + (v % 64)>>
  ELSE IF v <= 1114111 THEN <<240 + (v \div 262144), 128 + ((v \div 4096) % 64),
                              128 + ((v \div 64) % 64), 128 + (v % 64)>>
  ELSE <<239, 191, 189>>

\* isSafeDecoded of helpers.go: may a code point obtained from an escape be written raw?
SafeDecoded(v) ==
  /\ v \notin {34, 39, 92, 96}
  /\ v >= 32 /\ v # 127
  /\ v \notin {8232, 8233}
  /\ ~(55296 <= v /\ v <= 57343)
  /\ ~(48 <= v /\ v <= 57)          \* a raw digit would merge with a preceding \0 / octal escape

Keywords ==
  { [s |-> <<102,117,110,99,116,105,111,110>>, ty |-> "FUNCTION"],
    [s |-> <<108,101,116>>, ty |-> "LET"],
    [s |-> <<105,102>>, ty |-> "IF"],
    [s |-> <<101,108,115,101>>, ty |-> "ELSE"],
    [s |-> <<119,104,105,108,101>>, ty |-> "WHILE"],
    [s |-> <<102,111,114>>, ty |-> "FOR"],
    [s |-> <<114,101,116,117,114,110>>, ty |-> "RETURN"],
    [s |-> <<116,114,117,101>>, ty |-> "TRUE"],
    [s |-> <<102,97,108,115,101>>, ty |-> "FALSE"],
    [s |-> <<110,117,108,108>>, ty |-> "NULL"] }
KeywordTypes == {k.ty : k \in Keywords}
LookupIdent(lit) == IF \E k \in Keywords : k.s = lit
                    THEN (CHOOSE k \in Keywords : k.s = lit).ty ELSE "IDENT"

---------------------------------------------------------------------------
(* cursor *)

Ch(src, p) == IF p < Len(src) THEN src[p + 1] ELSE 0
Cur(src, c) == Ch(src, c[1])
Peek(src, c) == Ch(src, c[1] + 1)

\* ReadChar: a no-op once the end of the input has been reached
Adv(src, c) ==
  IF c[1] >= Len(src) THEN c
  ELSE IF src[c[1] + 1] = LF THEN <<c[1] + 1, c[2] + 1, 0>>
  ELSE <<c[1] + 1, c[2], c[3] + 1>>

Slice(src, a, b) == SubSeq(src, a + 1, b)   \* bytes at offsets a .. b-1

RECURSIVE TrimRightSp(_)
TrimRightSp(s) == IF s # <<>> /\ s[Len(s)] \in {32, 13} THEN TrimRightSp(SubSeq(s, 1, Len(s) - 1)) ELSE s   \* strings.TrimRight(.., " \r")

---------------------------------------------------------------------------
(* readLeadingComments: returns <<cursor, hadNewlineBefore, leadingComments>> *)

RECURSIVE SkipWS(_, _, _, _)
SkipWS(src, c, nl, lead) ==
  LET b == Cur(src, c) IN
  IF IsWS(b) THEN SkipWS(src, Adv(src, c), nl \/ b = LF, IF b = LF THEN Append(lead, <<>>) ELSE lead)
  ELSE <<c, nl, lead>>

RECURSIVE CommentBody(_, _, _)
CommentBody(src, c, acc) ==
  LET b == Cur(src, c) IN
  IF b = LF \/ b = 0 THEN <<c, acc>> ELSE CommentBody(src, Adv(src, c), Append(acc, b))

RECURSIVE Comments(_, _, _, _)
Comments(src, c, nl, lead) ==
  IF Cur(src, c) = 47 /\ Peek(src, c) = 47 THEN
    LET r    == CommentBody(src, Adv(src, Adv(src, c)), <<>>)
        atLF == Cur(src, r[1]) = LF
        c3   == IF atLF THEN Adv(src, r[1]) ELSE r[1]
    IN Comments(src, c3, nl \/ atLF, Append(lead, TrimRightSp(r[2])))
  ELSE <<c, nl, lead>>

RECURSIVE Trivia(_, _, _, _)
Trivia(src, c, nl, lead) ==
  LET a == SkipWS(src, c, nl, lead)
      b == Comments(src, a[1], a[2], a[3])
  IN IF IsWS(Cur(src, b[1])) THEN Trivia(src, b[1], b[2], b[3]) ELSE b

---------------------------------------------------------------------------
(* tokens *)

Tok(ty, lit, s, e, nl, lead) ==
  [ty |-> ty, lit |-> lit, so |-> s[1], sl |-> s[2], sc |-> s[3],
   eo |-> e[1], el |-> e[2], ec |-> e[3], nl |-> nl, lead |-> lead]

LetterSet == (97..122) \cup (65..90) \cup {95, 36}
DigitSet  == 48..57
HexSet    == DigitSet \cup (97..102) \cup (65..70)
BinSet    == {48, 49}
OctSet    == 48..55
IdentPartSet == LetterSet \cup DigitSet

RECURSIVE ScanWhile(_, _, _)
\* advance while the current byte is in S (0 is never in S)
ScanWhile(src, c, S) == IF Cur(src, c) \in S THEN ScanWhile(src, Adv(src, c), S) ELSE c

\* readNumber: returns <<cursor after, type>>
PrefixedNumber(src, c, S) ==
  LET c2 == Adv(src, Adv(src, c)) IN
  IF Cur(src, c2) \notin S THEN <<c2, "INT">> ELSE <<ScanWhile(src, c2, S), "INT">>

ReadNumber(src, c) ==
  LET pk == Peek(src, c) IN
  IF Cur(src, c) = 48 /\ pk \in {120, 88} THEN PrefixedNumber(src, c, HexSet)
  ELSE IF Cur(src, c) = 48 /\ pk \in {98, 66} THEN PrefixedNumber(src, c, BinSet)
  ELSE IF Cur(src, c) = 48 /\ pk \in {111, 79} THEN PrefixedNumber(src, c, OctSet)
  ELSE
    LET c1   == ScanWhile(src, c, DigitSet)
        \* exponentAt: e/E, optional sign, a digit, directly behind the dot (`1.e3` is one number)
        c1a  == Adv(src, c1)
        c1b  == Adv(src, c1a)
        expo == /\ Cur(src, c1a) \in {101, 69}
                /\ \/ IsDigit(Cur(src, c1b))
                   \/ Cur(src, c1b) \in {43, 45} /\ IsDigit(Peek(src, c1b))
        frac == Cur(src, c1) = 46 /\ (IsDigit(Peek(src, c1)) \/ expo)
        c2   == IF frac THEN ScanWhile(src, Adv(src, c1), DigitSet) ELSE c1
        ty2  == IF frac THEN "FLOAT" ELSE "INT"
    IN IF Cur(src, c2) \in {101, 69} THEN
         LET c3 == Adv(src, c2)
             c4 == IF Cur(src, c3) \in {43, 45} THEN Adv(src, c3) ELSE c3
         IN IF ~IsDigit(Cur(src, c4)) THEN <<c4, "FLOAT">> ELSE <<ScanWhile(src, c4, DigitSet), "FLOAT">>
       ELSE <<c2, ty2>>

\* readString(delimiter): c0 is the cursor BEFORE the ReadChar at the top of the loop.
\* Returns <<cursor at which the loop broke, literal bytes>>.
RECURSIVE UBrace(_, _, _)
\* the \u{...} digit loop: returns <<cursor, digits, isValid>>
UBrace(src, c, ds) ==
  LET nx == Peek(src, c) IN
  IF nx = 125 THEN <<Adv(src, c), ds, TRUE>>
  ELSE IF ~IsHex(nx) \/ Len(ds) >= 6 THEN <<c, ds, FALSE>>
  ELSE UBrace(src, Adv(src, c), Append(ds, nx))

RECURSIVE HexValue(_)
HexValue(ds) == IF ds = <<>> THEN 0 ELSE HexValue(SubSeq(ds, 1, Len(ds) - 1)) * 16 + HexVal(ds[Len(ds)])

RECURSIVE StrScan(_, _, _, _)
StrScan(src, c0, d, acc) ==
  LET c == Adv(src, c0)
      b == Cur(src, c)
  IN
  IF b = 0 THEN <<c, acc>>
  ELSE IF b = BSL THEN
    LET c1 == Adv(src, c)
        e  == Cur(src, c1)
    IN
    IF e = 120 THEN   \* \xHH
      LET h1 == Peek(src, c1) IN
      IF IsHex(h1) THEN
        LET c2 == Adv(src, c1)
            h2 == Peek(src, c2)
        IN IF IsHex(h2) THEN
             LET v == HexVal(h1) * 16 + HexVal(h2) IN
             StrScan(src, Adv(src, c2), d,
                     acc \o (IF SafeDecoded(v) THEN UTF8(v) ELSE <<BSL, 120, h1, h2>>))
           ELSE StrScan(src, c2, d, acc \o <<BSL, 120>>)
      ELSE StrScan(src, c1, d, acc \o <<BSL, 120>>)
    ELSE IF e = 117 THEN
      IF Peek(src, c1) = 123 THEN   \* \u{H...}
        LET r  == UBrace(src, Adv(src, c1), <<>>)
            ds == r[2]
        IN IF ~r[3] \/ Len(ds) = 0 \/ Len(ds) > 6
           THEN StrScan(src, r[1], d, acc \o <<BSL, 117, 123>> \o ds \o (IF r[3] THEN <<125>> ELSE <<>>))
           ELSE LET v == HexValue(ds) IN
                IF v > 1114111 THEN StrScan(src, r[1], d, acc \o <<BSL, 117, 123>> \o ds \o <<125>>)
                ELSE StrScan(src, r[1], d,
                             acc \o (IF SafeDecoded(v) THEN UTF8(v) ELSE <<BSL, 117, 123>> \o ds \o <<125>>))
      ELSE   \* \uHHHH
        LET h1 == Peek(src, c1) IN
        IF ~IsHex(h1) THEN StrScan(src, c1, d, acc \o <<BSL, 117>>)
        ELSE LET c2 == Adv(src, c1)
                 h2 == Peek(src, c2) IN
        IF ~IsHex(h2) THEN StrScan(src, c2, d, acc \o <<BSL, 117>>)
        ELSE LET c3 == Adv(src, c2)
                 h3 == Peek(src, c3) IN
        IF ~IsHex(h3) THEN StrScan(src, c3, d, acc \o <<BSL, 117>>)
        ELSE LET c4 == Adv(src, c3)
                 h4 == Peek(src, c4) IN
        IF ~IsHex(h4) THEN StrScan(src, c4, d, acc \o <<BSL, 117>>)
        ELSE LET v == HexVal(h1) * 4096 + HexVal(h2) * 256 + HexVal(h3) * 16 + HexVal(h4) IN
             StrScan(src, Adv(src, c4), d,
                     acc \o (IF SafeDecoded(v) THEN UTF8(v) ELSE <<BSL, 117, h1, h2, h3, h4>>))
    ELSE StrScan(src, c1, d, acc \o <<BSL, e>>)   \* any other escape is kept as the two bytes
  ELSE IF b = d THEN <<c, acc>>
  ELSE StrScan(src, c, d, Append(acc, b))

RECURSIVE RawScan(_, _, _)
RawScan(src, c0, acc) ==
  LET c == Adv(src, c0)
      b == Cur(src, c)
  IN
  IF b = 0 THEN <<c, acc>>
  ELSE IF b = BSL /\ Peek(src, c) = 96 THEN RawScan(src, Adv(src, c), Append(acc, 96))
  ELSE IF b = BSL /\ Peek(src, c) = BSL THEN RawScan(src, Adv(src, c), acc \o <<BSL, BSL>>)   \* escaped backslash: a pair
  ELSE IF b = 96 THEN <<c, acc>>
  ELSE RawScan(src, c, Append(acc, b))

\* two-byte operators: first byte, second byte, type
TwoByteOps ==
  { <<61, 61, "EQ">>, <<33, 61, "NOT_EQ">>, <<60, 61, "LTE">>, <<62, 61, "GTE">>,
    <<38, 38, "AND">>, <<124, 124, "OR">>, <<43, 43, "INCREMENT">>, <<43, 61, "PLUS_ASSIGN">>,
    <<45, 45, "DECREMENT">>, <<45, 61, "MINUS_ASSIGN">> }

OneByteOps ==
  { <<61, "ASSIGN">>, <<33, "NOT">>, <<60, "LT">>, <<62, "GT">>, <<38, "ILLEGAL">>, <<124, "ILLEGAL">>,
    <<43, "PLUS">>, <<45, "MINUS">>, <<42, "MULTIPLY">>, <<47, "DIVIDE">>, <<37, "MODULO">>,
    <<44, "COMMA">>, <<59, "SEMICOLON">>, <<58, "COLON">>, <<46, "DOT">>, <<40, "LPAREN">>,
    <<41, "RPAREN">>, <<123, "LBRACE">>, <<125, "RBRACE">>, <<91, "LBRACKET">>, <<93, "RBRACKET">> }

\* the literal of an ILLEGAL byte is string(rune(b)): Latin-1 re-encoded as UTF-8
IllegalLit(b) == UTF8(b)

\* baseNextToken at cursor c (trivia already skipped): returns <<token, cursor after>>
BaseNextToken(src, c, nl, lead) ==
  LET b  == Cur(src, c)
      pk == Peek(src, c)
  IN
  IF \E o \in TwoByteOps : o[1] = b /\ o[2] = pk THEN
    LET o == CHOOSE o \in TwoByteOps : o[1] = b /\ o[2] = pk
        e == Adv(src, c)
    IN <<Tok(o[3], <<b, pk>>, c, e, nl, lead), Adv(src, e)>>
  ELSE IF \E o \in OneByteOps : o[1] = b THEN
    LET o == CHOOSE o \in OneByteOps : o[1] = b
    IN <<Tok(o[2], <<b>>, c, c, nl, lead), Adv(src, c)>>
  ELSE IF b = 34 \/ b = 39 THEN
    LET r == StrScan(src, c, b, <<>>)
        ty == IF Cur(src, r[1]) = b THEN "STRING" ELSE "ILLEGAL"
    IN <<Tok(ty, r[2], c, r[1], nl, lead), Adv(src, r[1])>>
  ELSE IF b = 96 THEN
    LET r == RawScan(src, c, <<>>)
        ty == IF Cur(src, r[1]) = 96 THEN "RAW_STRING" ELSE "ILLEGAL"
    IN <<Tok(ty, r[2], c, r[1], nl, lead), Adv(src, r[1])>>
  ELSE IF b = 0 THEN
    IF c[1] < Len(src) THEN <<Tok("ILLEGAL", <<0>>, c, c, nl, lead), Adv(src, c)>>
    ELSE <<Tok("EOF", <<>>, c, c, nl, lead), Adv(src, c)>>
  ELSE IF IsLetter(b) THEN
    LET e   == ScanWhile(src, c, IdentPartSet)
        lit == Slice(src, c[1], e[1])
    IN <<Tok(LookupIdent(lit), lit, c, e, nl, lead), e>>
  ELSE IF IsDigit(b) THEN
    LET r == ReadNumber(src, c)
    IN <<Tok(r[2], Slice(src, c[1], r[1][1]), c, r[1], nl, lead), r[1]>>
  ELSE <<Tok("ILLEGAL", IllegalLit(b), c, c, nl, lead), Adv(src, c)>>

\* Lexer.NextToken without interceptors
NextToken(src, c) ==
  LET t == Trivia(src, c, FALSE, <<>>) IN BaseNextToken(src, t[1], t[2], t[3])

InitCursor == <<0, 0, 0>>

\* all tokens up to and including the first EOF, then `extra` further requests
RECURSIVE LexFrom(_, _, _, _)
LexFrom(src, c, extra, acc) ==
  LET r == NextToken(src, c) IN
  IF r[1].ty = "EOF" THEN
    IF extra = 0 THEN Append(acc, r[1]) ELSE LexFrom(src, r[2], extra - 1, Append(acc, r[1]))
  ELSE LexFrom(src, r[2], extra, Append(acc, r[1]))

LexAll(src, extra) == LexFrom(src, InitCursor, extra, <<>>)

---------------------------------------------------------------------------
(* P_C10: the declarative property, evaluated on ANY token list claimed    *)
(* for src (no reference to how it was computed).  Tokens carry            *)
(* line/column only; offsets are recovered from the text.                  *)

\* offset of the first byte of 0-based line n (= Len(src) + 1 if there is no such line)
RECURSIVE LineStartFrom(_, _, _)
LineStartFrom(src, n, from) ==
  IF n = 0 THEN from
  ELSE IF \E i \in (from + 1)..Len(src) : src[i] = LF
       THEN LineStartFrom(src, n - 1, CHOOSE i \in (from + 1)..Len(src) :
                                        src[i] = LF /\ \A j \in (from + 1)..(i - 1) : src[j] # LF)
       ELSE Len(src) + 1
OffsetOf(src, line, col) == LineStartFrom(src, line, 0) + col

\* bytes at offsets a .. b-1 are whitespace and // comments only (a comment runs to the next LF
\* or to the end of the gap)
RECURSIVE TriviaOnly(_, _, _)
TriviaOnly(src, a, b) ==
  IF a >= b THEN TRUE
  ELSE IF IsWS(src[a + 1]) THEN TriviaOnly(src, a + 1, b)
  ELSE IF src[a + 1] = 47 /\ a + 1 < b /\ src[a + 2] = 47 THEN
         IF \E i \in (a + 3)..b : src[i] = LF
         THEN TriviaOnly(src, (CHOOSE i \in (a + 3)..b : src[i] = LF /\ \A j \in (a + 3)..(i - 1) : src[j] # LF), b)
         ELSE TRUE
  ELSE FALSE

HasLF(src, a, b) == \E i \in (a + 1)..b : src[i] = LF     \* an LF at an offset in a .. b-1

WordTypes == {"IDENT", "INT", "FLOAT"} \cup KeywordTypes

\* clauses, each over the real token list toks (fields ty, lit, sl, sc, el, ec, nl) of src;
\* nEOF = number of EOF tokens requested (1 + extra requests)
C10_EndsWithEOF(toks) ==
  /\ Len(toks) >= 1 /\ toks[Len(toks)].ty = "EOF"

FirstEOF(toks) == CHOOSE i \in 1..Len(toks) : toks[i].ty = "EOF" /\ \A j \in 1..(i - 1) : toks[j].ty # "EOF"

C10_EOFStable(src, toks) ==
  \A i \in FirstEOF(toks)..Len(toks) :
     /\ toks[i].ty = "EOF"
     /\ OffsetOf(src, toks[i].sl, toks[i].sc) = Len(src)
     /\ OffsetOf(src, toks[i].el, toks[i].ec) = Len(src)

\* last byte (offset) of token i: End lies on it or immediately after it
LastCandidates(src, t) ==
  LET s == OffsetOf(src, t.sl, t.sc)
      e == OffsetOf(src, t.el, t.ec)
  IN {x \in {e - 1, e} : s <= x /\ x < Len(src)}

C10_Token(src, toks, i) ==
  LET t     == toks[i]
      s     == OffsetOf(src, t.sl, t.sc)
      prevL == IF i = 1 THEN {-1} ELSE LastCandidates(src, toks[i - 1])
  IN
  /\ 0 <= s /\ s < Len(src)                                   \* starts inside the source
  /\ OffsetOf(src, t.el, t.ec) <= Len(src)                   \* ends inside the source
  /\ t.sc >= 0 /\ t.ec >= 0
  /\ \E pl \in prevL :                                        \* nothing but trivia before it ...
        /\ pl < s
        /\ TriviaOnly(src, pl + 1, s)
        /\ (i > 1 => (t.nl <=> HasLF(src, pl + 1, s)))         \* ... and the newline flag says whether
                                                              \*     a line break lies in between
  /\ LastCandidates(src, t) # {}
  /\ (t.ty \in WordTypes =>                                   \* words carry exactly their slice
        /\ \E la \in LastCandidates(src, t) : Slice(src, s, la + 1) = t.lit
        /\ t.lit # <<>>)
  /\ (t.ty = "IDENT" => LookupIdent(t.lit) = "IDENT")         \* keywords are classified as such
  /\ (t.ty \in KeywordTypes => LookupIdent(t.lit) = t.ty)

\* the last real token is followed by trivia only up to the end of the source
C10_Tail(src, toks) ==
  LET k == FirstEOF(toks) IN
  IF k = 1 THEN TriviaOnly(src, 0, Len(src))
  ELSE \E pl \in LastCandidates(src, toks[k - 1]) : TriviaOnly(src, pl + 1, Len(src))

\* names of the failing clauses (empty set = property holds)
C10_Failures(src, toks) ==
  IF ~C10_EndsWithEOF(toks) THEN {"eof_last"}
  ELSE (IF C10_EOFStable(src, toks) THEN {} ELSE {"eof_stable"})
       \cup (IF \A i \in 1..(FirstEOF(toks) - 1) : C10_Token(src, toks, i) THEN {} ELSE {"tiling"})
       \cup (IF C10_Tail(src, toks) THEN {} ELSE {"tail"})

P_C10(src, toks) == C10_Failures(src, toks) = {}

=============================================================================
