SPECIFICATION Spec
CONSTANTS
  Names = {"DYN0", "dyn0", "DYN1"}
  BuiltinToks = {"PLUS", "NOT", "INCREMENT", "LPAREN"}
  InfixLevels = {3, 7}
  MaxCalls = 4
  Export = TRUE
INVARIANT Inv
PROPERTIES IdsStable RefusalChangesNothing
CHECK_DEADLOCK FALSE
