SPECIFICATION Spec
CONSTANTS
  Names = {"DYN0", "dyn0", "DYN1"}
  BuiltinToks = {"PLUS", "NOT", "INCREMENT", "LPAREN"}
  InfixLevels = {3, 7}
  MaxCalls = 5
  Export = TRUE
INVARIANT Inv
PROPERTIES IdsStable RefusalChangesNothing
CHECK_DEADLOCK FALSE
