SPECIFICATION Spec
CONSTANTS
  Names = {"DYN0", "DYN1", "DYN2"}
  BuiltinToks = {"PLUS", "NOT", "INCREMENT", "LPAREN"}
  InfixLevels = {3, 7}
  MaxCalls = 5
  Export = TRUE
INVARIANT Inv
PROPERTIES IdsStable RefusalChangesNothing
CHECK_DEADLOCK FALSE
