SPECIFICATION Spec
CONSTANTS
  MaxLen = 4
  SrcPos <- TSrcPos
  Names = {"x", "y"}
  Cols = {1, 17}
  Strs <- TStrs
  Export = TRUE
INVARIANTS InvRef InvP InvNames InvSorted InvExport
PROPERTY StableNames
CHECK_DEADLOCK FALSE
