------------------------------ MODULE MC_C13 ------------------------------
(* Parser modes.  For every enumerated program and layout the parser model  *)
(* is run in the four mode combinations and must satisfy the mode contract  *)
(* (design level); each case is exported with its kind:                     *)
(*   same   a subset program (strict accepts): tolerant = strict; smart =   *)
(*          default unless a `(`/`[` starts a line, then smart = default    *)
(*          on `alt` (the same tokens with `;` in front of those tokens)    *)
(*   smart  statements separated by line breaks only, some beginning with   *)
(*          `(` or `[`: smart mode returns the program's tree               *)
(*   fuse   two sibling statements on one line without separator: tolerant  *)
(*          mode returns the program's tree without error                   *)
(*   open   trailing block-closing braces removed: tolerant mode returns    *)
(*          the program's tree without error                                *)
EXTENDS XjsPrograms, Json, FiniteSets

CONSTANTS Depth, MaxStmts, Contexts, Export

VARIABLES t, d, ss
vars == <<t, d, ss>>

Init == \/ t \in Atoms /\ d = 0 /\ ss = <<>>
        \/ MaxStmts > 0 /\ t = Nil /\ d = 0 /\ ss = <<>>
Next == \/ t # Nil /\ d < Depth /\ t' \in Wraps(t) /\ d' = d + 1 /\ UNCHANGED ss
        \/ t = Nil /\ Len(ss) < MaxStmts /\ \E s \in Templates : ss' = Append(ss, s) /\ UNCHANGED <<t, d>>
Spec == Init /\ [][Next]_vars

StartsWithBracket(st) == LET ts == RenderS(st, FALSE, <<>>) IN Len(ts) > 0 /\ ts[1].ty \in {"LPAREN", "LBRACKET"}

Programs ==
  IF t # Nil THEN {Ctx(c, t) : c \in Contexts}
  ELSE IF Len(ss) = 0 THEN {}
  ELSE (IF TopOK(ss) THEN {Prog(ss)} ELSE {}) \cup {Prog(<<Node("fdecl", "", <<Id("h"), PList(<<>>), Blk(ss)>>)>>)}
       \* the same statement lists as the body of a function expression that sits INSIDE an open
       \* bracket (call argument, called parenthesised function, array element): a statement list is a
       \* statement list wherever it stands
       \cup (IF \E j \in 1..Len(ss) : StartsWithBracket(ss[j])
             THEN {Prog(<<E(Node("call", "", <<Id("f"), Fn(Nil, <<>>, ss), A>>))>>),
                   Prog(<<E(Node("call", "", <<Grp(Fn(Nil, <<>>, ss))>>))>>),
                   Prog(<<Let("k", Node("arr", "", <<Fn(Nil, <<Id("p")>>, ss)>>))>>)}
             ELSE {})

Run(toks, tol, smart) ==
  LET r == ParseProgram([DefaultP(toks) EXCEPT !.tolerant = tol, !.smart = smart])
  IN [tree |-> r.tree, nerr |-> Len(r.errs)]

LineLeadingBracket(toks) == \E j \in 1..Len(toks) : toks[j].nl /\ toks[j].ty \in {"LPAREN", "LBRACKET"}
RECURSIVE WithSemis(_, _)
\* `;` in front of every line-leading `(` / `[`
WithSemis(toks, j) ==
  IF j > Len(toks) THEN <<>>
  ELSE (IF toks[j].nl /\ toks[j].ty \in {"LPAREN", "LBRACKET"}
        THEN <<[ty |-> "SEMICOLON", lit |-> "", nl |-> FALSE, ok |-> TRUE], [toks[j] EXCEPT !.nl = FALSE]>>
        ELSE <<toks[j]>>) \o WithSemis(toks, j + 1)

Exp(kind, toks, alt, want) ==
  Export => PrintT(ToJson([kind |-> kind, want |-> want,
                           toks |-> [j \in 1..Len(toks) |-> [ty |-> toks[j].ty, lit |-> toks[j].lit, nl |-> toks[j].nl]],
                           alt |-> [j \in 1..Len(alt) |-> [ty |-> alt[j].ty, lit |-> alt[j].lit, nl |-> alt[j].nl]]]))

MFail(what, toks) == PrintT(<<"MODELFAIL", what, ToJson([toks |-> toks])>>)

Same(p, ts, sep, brk) ==
  LET toks == Layout(ts, sep, brk)
      want == Strip(p)
      r00  == Run(toks, FALSE, FALSE)
      r10  == Run(toks, TRUE, FALSE)
      r01  == Run(toks, FALSE, TRUE)
      r11  == Run(toks, TRUE, TRUE)
      llb  == LineLeadingBracket(toks)
      alt  == IF llb THEN WithSemis(toks, 1) ELSE <<>>
      ra   == IF llb THEN Run(alt, FALSE, FALSE) ELSE r00
  IN /\ (r00.nerr = 0 /\ r10 = r00) \/ MFail("tolerant differs from strict", toks)
     /\ (llb \/ (r01 = r00 /\ r11 = r10)) \/ MFail("smart differs from default", toks)
     /\ (~llb \/ ra.nerr > 0 \/ r01 = ra) \/ MFail("smart is not default-with-semicolons", toks)
     /\ Exp("same", toks, alt, want)

Smart(p, ts, brk) ==
  LET toks == Layout(ts, 2, brk)
      want == Strip(p)
      r01  == Run(toks, FALSE, TRUE)
      alt  == Layout(ts, 3, brk)
  IN /\ (r01.nerr = 0 /\ Strip(r01.tree) = want) \/ MFail("smart mode loses a line-leading bracket statement", toks)
     /\ Exp("smart", toks, alt, want)

\* sibling boundaries where the left statement cannot swallow the first token of the right one
Fusable(ts, j) ==
  /\ ts[j].opt /\ j < Len(ts) /\ ts[j + 1].sb
  /\ j > 1 /\ ts[j - 1].ty # "RETURN"          \* `return; a` fused is `return a`: another program
  /\ ~ContinuesAcrossNewline(ts[j + 1].ty) /\ ts[j + 1].ty \notin {"INCREMENT", "DECREMENT"}
Fuse(p, ts, j) ==
  LET toks == Layout(SubSeq(ts, 1, j - 1) \o SubSeq(ts, j + 1, Len(ts)), 1, {})
      want == Strip(p)
      r00  == Run(toks, FALSE, FALSE)
      r10  == Run(toks, TRUE, FALSE)
  IN /\ (r00.nerr > 0 /\ r10.nerr = 0 /\ Strip(r10.tree) = want) \/ MFail("fused statements", toks)
     /\ Exp("fuse", toks, <<>>, want)

RECURSIVE TrailingBC(_)
TrailingBC(ts) == IF Len(ts) > 0 /\ ts[Len(ts)].bc THEN 1 + TrailingBC(SubSeq(ts, 1, Len(ts) - 1)) ELSE 0
Open(p, ts, n, sep) ==
  LET toks == Layout(SubSeq(ts, 1, Len(ts) - n), sep, {})
      want == Strip(p)
      r00  == Run(toks, FALSE, FALSE)
      r10  == Run(toks, TRUE, FALSE)
  IN /\ (r00.nerr > 0 /\ r10.nerr = 0 /\ Strip(r10.tree) = want) \/ MFail("open block", toks)
     /\ Exp("open", toks, <<>>, want)

Inv == \A p \in Programs :
         StmtStartsOK(p, <<>>) =>
           LET ts == RenderProg(p, FALSE, <<>>) IN
           /\ \A sep \in {1, 2, 3} : \A brk \in {{}, 1..Len(ts)} :
                IF SepOK(ts, sep) THEN Same(p, ts, sep, brk)
                ELSE (sep = 2 /\ brk = {} /\ SepOKSmart(ts)) => Smart(p, ts, brk)
           /\ \A j \in 1..Len(ts) : Fusable(ts, j) => Fuse(p, ts, j)
           /\ \A n \in 1..TrailingBC(ts) : \A sep \in {1, 3} : Open(p, ts, n, sep)
=============================================================================
