------------------------------ MODULE MC_C04 ------------------------------
(* Interceptor installation histories x programs.  For every history of     *)
(* <= MaxInst installations (s statement, e pass-through expression, r      *)
(* re-entrant expression interceptor; token interceptors live in the lexer  *)
(* and are added on the replay side) and every program of the corpus        *)
(* (statement templates, operator spines in contexts, and programs nested   *)
(* through function declarations, function expressions in arguments /       *)
(* object values / array elements / conditions, and blocks up to NestDepth) *)
(* the parser model is run with and without the interceptors; its event log *)
(* must satisfy C04_Failures and C16_Failures (design level); each case is  *)
(* exported for replay on the real parser.                                  *)
EXTENDS XjsPrograms, Json, FiniteSets

CONSTANTS MaxInst, NestDepth, SpineDepth, NestableOnly, Export

VARIABLES inst, prog, nest
vars == <<inst, prog, nest>>

RECURSIVE Insts(_)
Insts(n) == IF n = 0 THEN {<<>>} ELSE Insts(n - 1) \cup {Append(s, x) : s \in {q \in Insts(n - 1) : Len(q) = n - 1}, x \in {"s", "e", "r"}}

C == Id("c")
FnE(body) == Fn(Nil, <<>>, body)
\* ways to nest a statement list one level deeper, with code after the nested construct
Wrappers(ss) ==
  { <<Node("fdecl", "", <<Id("f"), PList(<<Id("p")>>), Blk(ss)>>), E(B)>>,
    <<E(A), Blk(ss), E(B)>>,
    <<E(Node("call", "", <<Id("g"), FnE(ss), B>>)), E(C)>>,
    <<Let("o", Node("obj", "", <<Id("k"), FnE(ss), Id("m"), B>>)), E(C)>>,
    <<E(Node("arr", "", <<FnE(ss), B>>))>>,
    <<If(Node("call", "", <<Grp(FnE(ss))>>), Blk(<<E(A)>>), E(B))>>,
    <<Node("while", "", <<A, Blk(ss)>>), E(B)>> }

Siblings ==
  { <<Node("fdecl", "", <<Id("f"), PList(<<>>), Blk(<<E(A)>>)>>), Blk(<<Blk(<<E(B)>>)>>)>>,
    <<E(Node("call", "", <<Id("g"), FnE(<<E(A)>>)>>)), If(A, Blk(<<Blk(<<E(B)>>)>>), Nil), E(C)>>,
    <<Blk(<<Blk(<<E(B)>>)>>), Node("fdecl", "", <<Id("f"), PList(<<>>), Blk(<<E(A)>>)>>), Blk(<<Blk(<<E(C)>>)>>)>>,
    <<Let("x", FnE(<<Blk(<<E(A)>>)>>)), Blk(<<Blk(<<Blk(<<E(B)>>)>>)>>)>> }
\* a function expression / object literal as an OPERAND parsed above the lowest level, with operators
\* of equal or lower level behind it (what the parser does while inside the operand must not leak)
FnOperands ==
  { <<Let("x", Bin("-", Bin("*", B, FnE(<<Ret(A)>>)), C))>>,
    <<E(Bin("-", Bin("-", A, Node("call", "", <<FnE(<<E(B)>>)>>)), C))>>,
    <<E(Bin("&&", Node("un", "!", <<Node("call", "", <<FnE(<<>>)>>)>>), B))>>,
    <<Let("x", Bin("+", Bin("*", A, Node("call", "", <<Id("g"), FnE(<<Ret(A)>>)>>)), B))>>,
    <<E(Node("asg", "=", <<A, Bin("+", Bin("*", B, Node("mem", "", <<Node("obj", "", <<Id("k"), FnE(<<Blk(<<E(A)>>)>>)>>), Id("k")>>)), C)>>))>>,
    <<E(Bin("<", Bin("+", A, Node("idx", "", <<Node("arr", "", <<FnE(<<If(A, Blk(<<E(B)>>), Nil)>>)>>), Num("0")>>)), B))>> }
BaseProgs == Siblings \cup FnOperands \cup {<<s>> : s \in Templates} \cup {<<E(x)>> : x \in UNION {Spines(k) : k \in 1..SpineDepth}}
                                      \cup {<<Let("x", x)>> : x \in UNION {Spines(k) : k \in 1..SpineDepth}}

Init == inst \in Insts(MaxInst) /\ prog \in (IF NestableOnly THEN {<<E(A)>>} ELSE {q \in BaseProgs : TopOK(q)}) /\ nest = 0
Next == /\ nest < NestDepth
        /\ nest' = nest + 1 /\ prog' \in Wrappers(prog) /\ UNCHANGED inst
        /\ (nest = 0 => prog = <<E(A)>>)
Spec == Init /\ [][Next]_vars

SC == SelectSeq(inst, LAMBDA x : x = "s")
EC == [j \in 1..Len(SelectSeq(inst, LAMBDA x : x \in {"e", "r"})) |->
         IF SelectSeq(inst, LAMBDA x : x \in {"e", "r"})[j] = "r" THEN "reent" ELSE "pass"]

ObsOf(r, toks) ==
  [toks |-> toks, tree |-> r.tree, nerr |-> Len(r.errs), err |-> Len(r.errs) > 0,
   errpos |-> [k \in 1..Len(r.errs) |-> r.errs[k].at], out |-> "", plog |-> r.log, tlog |-> <<>>,
   ctx |-> r.ctx[Len(r.ctx)], infn |-> (\E k \in 1..Len(r.ctx) : r.ctx[k] = "function")]

Inv ==
  (StmtStartsOK(Prog(prog), <<>>) /\ (NestableOnly => nest >= 8)) =>
  \A sep \in {1, 2} :
    LET ts == RenderProg(Prog(prog), FALSE, <<>>) IN
    SepOK(ts, sep) =>
      LET toks == Layout(ts, sep, {})
          P0   == DefaultP(toks)
          P1   == [P0 EXCEPT !.schain = [j \in 1..Len(SC) |-> "pass"], !.echain = EC]
          base == ParseProgram(P0)
          with == ParseProgram(P1)
          rec  == [ObsOf(with, toks) EXCEPT !.plog = with.log] @@ [inst |-> inst, base |-> ObsOf(base, toks)]
          f    == C04_Failures(rec) \cup C16_Failures(rec)
      IN /\ (f = {} \/ PrintT(<<"MODELFAIL", f, ToJson([inst |-> inst, toks |-> toks, log |-> with.log])>>))
         /\ (Export => PrintT(ToJson([inst |-> inst, toks |-> [j \in 1..Len(toks) |-> [ty |-> toks[j].ty, lit |-> toks[j].lit, nl |-> toks[j].nl]]])))
=============================================================================
