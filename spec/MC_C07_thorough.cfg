SPECIFICATION Spec
CONSTANTS
  MaxAtoms = 3
  Sweep = TRUE
  Export = TRUE
INVARIANT Inv
CHECK_DEADLOCK FALSE
