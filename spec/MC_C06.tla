------------------------------ MODULE MC_C06 ------------------------------
(* Decorated programs: statement sequences (top level and function body),   *)
(* rendered with `;` separators on one line / on separate lines / with line *)
(* breaks only, and `//` comments and blank-line runs put at statement-     *)
(* level positions (before a statement, before a closing brace of a block,  *)
(* before the end of the input; trailing the previous line or on their own  *)
(* line).  Every decorated token list is exported; for the undecorated      *)
(* program the printer model's text is exported too (drift reference).      *)
(* Inner decorations (Inner = TRUE): the same comments and blank-line runs  *)
(* in front of every token INSIDE a statement where ECMAScript permits a    *)
(* line break (between an operator and its operand, inside argument lists,  *)
(* array / object literals, for headers, before closing brackets, ...):     *)
(* the printer replays the trivia of expression tokens too, and C06 speaks  *)
(* of every accepted program.                                               *)
EXTENDS XjsPrinter, XjsPrograms, Json, FiniteSets

CONSTANTS MaxStmts, MaxDecorated, NTexts, Export, Inner

VARIABLES ss
vars == <<ss>>

RawLit(x) == Node("raw", x, <<>>)
ExtraTemplates ==
  { E(Node("un", "--", <<A>>)), E(Node("call", "", <<Id("f"), RawLit("r")>>)), Let("m", RawLit("a  \n b ")),
    If(A, E(Node("call", "", <<Grp(B)>>)), E(Node("idx", "", <<Node("arr", "", <<A>>), Num("0")>>))),
    Node("while", "", <<A, If(B, E(Id("c")), E(Id("d")))>>),
    Node("for", "", <<Nil, Nil, Nil, E(Node("un", "-", <<A>>))>>),
    If(A, Blk(<<E(B), E(Id("c"))>>), Blk(<<Blk(<<E(Id("d"))>>)>>)),
    E(Node("call", "", <<Id("f"), Fn(Nil, <<Id("p")>>, <<E(A), Ret(Id("p"))>>), B>>)),
    If(A, Ret(Nil), E(B)), If(A, Ret(A), If(B, Ret(Nil), E(Id("c")))),
    E(Num("1")), E(Bin("*", Node("flt", "1.5", <<>>), A)), E(Bin("&&", Node("bool", "true", <<>>), B)), E(Node("null", "", <<>>)),
    If(A, E(Node("asg", "=", <<Id("x"), Node("obj", "", <<Id("k"), Num("1")>>)>>)), E(B)),
    If(A, E(Node("asg", "=", <<Id("x"), Fn(Nil, <<>>, <<>>)>>)), E(B)),
    E(Node("un", "-", <<Node("un", "-", <<A>>)>>)), E(Node("un", "-", <<Node("un", "--", <<A>>)>>)),
    E(Bin("-", A, Node("un", "-", <<B>>))), E(Bin("+", A, Node("un", "++", <<B>>))), E(Bin("<", A, Node("un", "!", <<Node("un", "--", <<B>>)>>))) }
\* first statements put in front of every single-statement program (two-statement programs also
\* in the small configuration)
Firsts == {E(A), Let("x", Num("1")), Let("g", Fn(Nil, <<>>, <<>>)), E(Node("asg", "=", <<Id("x"), Node("obj", "", <<Id("k"), Num("1")>>)>>))}
AllTemplates == Templates \cup ExtraTemplates
\* three statements: a decorated gap, then a statement that begins harmlessly, then - with no gap of
\* its own - one whose first token would continue the previous statement (or an else that needs
\* its semicolon).  What the writer remembers about an omitted semicolon must not outlive the
\* statement it belongs to.
Harmless == {E(B), Let("y", Num("2")), E(Node("call", "", <<Id("g")>>)), E(Node("post", "++", <<A>>))}
Hazards == {E(Node("call", "", <<Grp(Fn(Nil, <<>>, <<>>))>>)), E(Node("idx", "", <<Node("arr", "", <<A>>), Num("0")>>)),
            E(Node("un", "-", <<A>>)), E(Node("un", "++", <<A>>)), E(Node("raw", "r", <<>>)),
            If(A, E(Node("call", "", <<B>>)), E(Node("call", "", <<Id("c")>>))), E(Node("call", "", <<Grp(B)>>))}
Triples == {<<f, g, h>> : f \in {E(A), Let("x", Num("1")), Let("g", Fn(Nil, <<>>, <<>>))}, g \in Harmless, h \in Hazards}

Init == ss = <<>>
Next == Len(ss) < MaxStmts /\ \E s \in AllTemplates : ss' = Append(ss, s)
Spec == Init /\ [][Next]_vars

Programs == IF Len(ss) = 0 THEN {}
            ELSE (IF TopOK(ss) THEN {Prog(ss)} ELSE {}) \cup {Prog(<<Node("fdecl", "", <<Id("h"), PList(<<>>), Blk(ss)>>)>>)}
                 \cup (IF Len(ss) = 1 /\ TopOK(ss) THEN {Prog(<<f>> \o ss) : f \in Firsts} ELSE {})

Decos == {<<"O">>, <<"T">>, <<"B">>, <<"B", "O">>, <<"O", "B">>, <<"T", "O">>, <<"O", "O">>, <<"T", "B">>,
          <<"B", "B", "O">>, <<"B", "B", "B">>, <<"O", "B", "B", "B", "O">>}
\* statement-level positions of a laid-out token list (indices): first token, first tokens of
\* sibling statements, closing braces of blocks, end of input
AnchorsOf(ts, toks) == {1, Len(toks)} \cup {j \in 1..Len(ts) : ts[j].sb \/ ts[j].bc}

Item(d, k) == IF d = "B" THEN "B" ELSE d \o ToString(k)
PreOf(deco, k) == [j \in 1..Len(deco) |-> Item(deco[j], ((k + j) % NTexts))]

ExportCase(toks, pre, mouts) ==
  Export => PrintT(ToJson([toks |-> [j \in 1..Len(toks) |-> [ty |-> toks[j].ty, lit |-> toks[j].lit, nl |-> toks[j].nl,
                                                            pre |-> IF j \in DOMAIN pre THEN pre[j] ELSE <<>>]],
                           mouts |-> mouts]))

ExportInner(toks, pre) ==
  Export => PrintT(ToJson([toks |-> [j \in 1..Len(toks) |-> [ty |-> toks[j].ty, lit |-> toks[j].lit, nl |-> toks[j].nl,
                                                            pre |-> IF j \in DOMAIN pre THEN pre[j] ELSE <<>>]],
                           mouts |-> <<>>, inner |-> TRUE]))
\* positions inside a statement in front of which a line break is permitted (not a restricted
\* production) and which are not statement-level anchors
InnerGaps(ts, anch) == {j \in 2..Len(ts) : ~ts[j].nonl /\ j \notin anch}
InnerDecos == {<<"T">>, <<"O">>, <<"T", "O">>, <<"B", "O">>, <<"O", "B">>}

Cfgs == <<Compact, Pretty(<<32, 32>>, TRUE), Pretty(<<9>>, FALSE)>>
ExportTriple(toks, pre) ==
  Export => PrintT(ToJson([toks |-> [j \in 1..Len(toks) |-> [ty |-> toks[j].ty, lit |-> toks[j].lit, nl |-> toks[j].nl,
                                                            pre |-> IF j \in DOMAIN pre THEN pre[j] ELSE <<>>]],
                           mouts |-> <<>>, triple |-> TRUE]))
\* anchors 2.. of the first two statement boundaries only (the third statement follows directly)
TripleInv ==
  (Len(ss) = 0) =>
    \A tr \in Triples : \A wrap \in BOOLEAN :
      LET p == IF wrap THEN Prog(<<Node("fdecl", "", <<Id("h"), PList(<<>>), Blk(tr)>>)>>) ELSE Prog(tr)
          ts == RenderProg(p, FALSE, <<>>)
      IN \A sep \in {1, 3} :
           LET toks == Layout(ts, sep, {})
               sbs  == {j \in 1..Len(ts) : ts[j].sb}
               second == IF sbs = {} THEN 0 ELSE CHOOSE j \in sbs : \A i \in sbs : j <= i
           IN second > 0 =>
                \A dc \in {<<"B">>, <<"O">>, <<"T">>, <<"B", "O">>, <<"T", "B">>} :
                  ExportTriple(toks, (second :> PreOf(dc, second)))

Inv == \A p \in Programs :
         StmtStartsOK(p, <<>>) =>
           LET ts == RenderProg(p, FALSE, <<>>) IN
           \A sep \in {1, 3} :
             LET toks == Layout(ts, sep, {})
                 anch == AnchorsOf(ts, toks)
                 mo   == [c \in 1..3 |-> PrintTree(p, Cfgs[c])]
             IN /\ ExportCase(toks, <<>>, IF \E j \in 1..Len(ts) : ts[j].ty = "LPAREN" /\ FALSE THEN <<>> ELSE mo)
                /\ \A a \in anch : \A dc \in Decos : \A k \in 0..(NTexts - 1) :
                     ((dc[1] = "T" => a > 1) /\ (k \in {a % NTexts, (a + Len(toks) + 3) % NTexts} \/ (Len(ss) = 1 /\ p = Prog(ss) /\ Len(dc) = 1))) =>
                        ExportCase(toks, (a :> PreOf(dc, k)), <<>>)
                /\ (Inner =>
                      LET inner == InnerGaps(ts, anch) IN
                      /\ \A g \in inner : \A dc \in InnerDecos : ExportInner(toks, (g :> PreOf(dc, g)))
                      \* an inner decoration together with a statement-level one, and two inner ones
                      /\ \A g \in inner : \A a \in anch :
                           (a > 1 /\ (g + a) % 3 = 0) => ExportInner(toks, (g :> PreOf(<<"T">>, g)) @@ (a :> PreOf(<<"O">>, a)))
                      /\ \A g, h \in inner : (g < h /\ (g + h) % 4 = 0) => ExportInner(toks, (g :> PreOf(<<"T">>, g)) @@ (h :> PreOf(<<"T">>, h))))
                /\ ((MaxDecorated >= 2 /\ p = Prog(ss)) =>
                      \A a, b \in anch : a < b =>
                        \A dc \in {<<"O">>, <<"T">>, <<"B", "O">>} : \A dd \in {<<"O">>, <<"B">>, <<"T", "B">>} :
                          (dc[1] = "T" => a > 1) =>
                            ExportCase(toks, (a :> PreOf(dc, a)) @@ (b :> PreOf(dd, b)), <<>>))
=============================================================================
