----------------------------- MODULE Trace_C03 -----------------------------
(* Validation of print / re-parse round trips recorded from the REAL        *)
(* compiler and parser.  One ndjson line per tree: {id, tree (the tree that *)
(* was printed), rts (per configuration: out, tree of the re-parsed output, *)
(* nerr, out2), mouts (the printer model's texts)}.  Verdict: the re-parsed *)
(* tree has the same shape (grouping nodes aside) and printing it again     *)
(* reproduces the text byte for byte.  Drift: model text = real text.       *)
(* The shape is compared with ProtectElse(tree): the brace pair that keeps  *)
(* an `else` with its own `if` is the statement-level grouping node.        *)
EXTENDS XjsGrammar, Json, IOUtils

CONSTANT Shards
Trace == ndJsonDeserialize(IOEnv.VERIF_TRACE)
N == Len(Trace)

VARIABLE t
Init == t \in 1..(IF N < Shards THEN N ELSE Shards)
Next == t + Shards <= N /\ t' = t + Shards
Spec == Init /\ [][Next]_t

C03_Failures(r) ==
  LET want == Strip(ProtectElse(Unflat(r.tree))) IN
  UNION {
    (IF r.rts[c].nerr = 0 THEN {} ELSE {"printed_code_does_not_parse"})
    \cup (IF r.rts[c].nerr > 0 \/ Strip(Unflat(r.rts[c].tree)) = want THEN {} ELSE {"reparsed_tree_has_another_shape"})
    \cup (IF r.rts[c].nerr > 0 \/ r.rts[c].out2 = r.rts[c].out THEN {} ELSE {"compiling_again_changes_the_output"})
    : c \in 1..Len(r.rts)}

Judge ==
  LET r     == Trace[t]
      fails == C03_Failures(r)
      same  == \A c \in 1..Len(r.rts) : c > Len(r.mouts) \/ r.mouts[c] = <<>> \/ r.mouts[c] = r.rts[c].out
  IN /\ (fails = {} \/ PrintT(<<"FAIL", r.id, fails>>))
     /\ (same \/ PrintT(<<"DRIFT", r.id>>))

Accepted == (TLCGet("distinct") = N) \/ PrintT(<<"REJECTED", TLCGet("distinct"), N>>)
=============================================================================
