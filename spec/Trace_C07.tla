----------------------------- MODULE Trace_C07 -----------------------------
(* Validation of literal programs compiled by the REAL compiler and run by  *)
(* a JavaScript engine.  One ndjson line per program `let v = <literal>;    *)
(* print(v);`: {id, kind, lit (source literal bytes), esrc (engine          *)
(* transcript of the source: [out, end]), eouts (configuration -> engine    *)
(* transcript of the compiled code), codes (configuration -> bytes), mout   *)
(* (the model's predicted output literal), ref (reference value)}.          *)
(* Verdict (C07): every compiled program prints the value the source        *)
(* prints and completes in the same way.  Oracle check: the reference       *)
(* semantics of XjsLiterals gives the value the engine printed for the      *)
(* source.  Drift: the compact code contains the model's output literal.    *)
EXTENDS XjsLiterals, Json, IOUtils, TLC

CONSTANT Shards
Trace == ndJsonDeserialize(IOEnv.VERIF_TRACE)
N == Len(Trace)

VARIABLE t
Init == t \in 1..(IF N < Shards THEN N ELSE Shards)
Next == t + Shards <= N /\ t' = t + Shards
Spec == Init /\ [][Next]_t

Body(lit) == SubSeq(lit, 2, Len(lit) - 1)
RefOf(r) == IF r.kind = "raw" THEN TV(Body(r.lit)) ELSE SV(Body(r.lit))
EngineString(tr) == IF tr.end = "normal" /\ Len(tr.out) = 1 /\ tr.out[1][1] = "string" THEN tr.out[1][2] ELSE Invalid

RECURSIVE Contains(_, _, _)
Contains(hay, needle, i) ==
  IF i + Len(needle) - 1 > Len(hay) THEN FALSE
  ELSE SubSeq(hay, i, i + Len(needle) - 1) = needle \/ Contains(hay, needle, i + 1)

Judge ==
  LET r == Trace[t]
      bad == {c \in DOMAIN r.eouts : r.eouts[c] # r.esrc}
  IN /\ (bad = {} \/ PrintT(<<"FAIL", r.id, {"literal_value_or_completion_changed"}>>))
     /\ (r.kind \in {"num", "key", "multi"} \/ RefOf(r) = Invalid \/ RefOf(r) = EngineString(r.esrc) \/ PrintT(<<"ORACLE", r.id>>))
     /\ (Len(r.mout) = 0 \/ Contains(r.codes["compact"], r.mout, 1) \/ PrintT(<<"DRIFT", r.id>>))

Accepted == (TLCGet("distinct") = N) \/ PrintT(<<"REJECTED", TLCGet("distinct"), N>>)
=============================================================================
