----------------------------- MODULE Trace_C05 -----------------------------
(* Validation of observations recorded from REAL builders and parsers.      *)
(* part = "A": {id, toks, res, cl, lowest}: an operator string parsed by a  *)
(*   parser with registered operators - judged by C05A_Failures (grouping   *)
(*   by level), compared with the parser model (drift).                     *)
(* part = "B": {id, h (calls with the REAL replies), builtinIds, probes     *)
(*   (per build: results of the probe inputs, as strings), ftoks, ftrees,   *)
(*   fnerr (final build)} - judged by C05B_Failures and by "a refused       *)
(*   registration leaves the parser unchanged"; the final parser is         *)
(*   compared with the parser model configured by the XjsBuilder machine.   *)
EXTENDS XjsGrammar, Json, IOUtils, TLC

CONSTANT Shards
Trace == ndJsonDeserialize(IOEnv.VERIF_TRACE)
N == Len(Trace)

VARIABLE t
Init == t \in 1..(IF N < Shards THEN N ELSE Shards)
Next == t + Shards <= N /\ t' = t + Shards
Spec == Init /\ [][Next]_t

MTok(k) == [ty |-> k.ty, lit |-> k.lit, nl |-> k.nl, ok |-> TRUE]
MToks(ts) == [j \in 1..Len(ts) |-> MTok(ts[j])]

\* configuration the machine reaches on history h (the model's own replies decide)
RECURSIVE CfgAfter(_, _, _)
CfgAfter(h, k, cfg) ==
  IF k > Len(h) THEN cfg
  ELSE LET e == h[k] IN
       CfgAfter(h, k + 1,
         CASE e.op = "prefix" /\ e.a \notin BuiltinPrefixRole \cup cfg.cprefix -> [cfg EXCEPT !.cprefix = @ \cup {e.a}]
           [] e.op = "infix" /\ e.a \notin BuiltinInfixRole \cup DOMAIN cfg.cinfix -> [cfg EXCEPT !.cinfix = @ @@ (e.a :> e.l)]
           [] e.op = "postfix" /\ e.a \notin BuiltinPostfixRole \cup cfg.cpostfix -> [cfg EXCEPT !.cpostfix = @ \cup {e.a}]
           [] OTHER -> cfg)

JudgeA(r) ==
  LET fails == C05A_Failures(r)
      P == [DefaultP(MToks(r.toks)) EXCEPT !.cprefix = {"DYN1"}, !.cinfix = r.cl, !.cpostfix = {"DYN2", "DYN1"}]
      m == ParseProgram(P)
  IN /\ (fails = {} \/ PrintT(<<"FAIL", r.id, fails>>))
     /\ ((m.tree = r.res.tree /\ Len(m.errs) = r.res.nerr) \/ PrintT(<<"DRIFT", r.id>>))

\* an accepted registration takes effect in the parsers built afterwards: the probe `T a` / `a T` /
\* `a T b` of the parser built right after the call shows the registered operator (judged when the
\* token has no other accepted infix/postfix role, which would share its table entry)
ExpectedProbe(op, a) ==
  CASE op = "prefix" -> "(prog (expr (cun:" \o a \o " (id:a)))) errs=0"
    [] op = "postfix" -> "(prog (expr (cpost:" \o a \o " (id:a)))) errs=0"
    [] op = "infix" -> "(prog (expr (cbin:" \o a \o " (id:a) (id:b)))) errs=0"
TakesEffect(r) ==
  \A k \in 1..Len(r.h) :
    LET e == r.h[k]
        key == e.op \o ":" \o e.a
        rival == \E j \in 1..(k - 1) : r.h[j].a = e.a /\ r.h[j].res = 0 /\ r.h[j].op \in {"infix", "postfix"} /\ r.h[j].op # e.op
    IN (e.op \in {"prefix", "infix", "postfix"} /\ e.res = 0 /\ key \in DOMAIN r.pidx /\ (e.op = "prefix" \/ ~rival)
        /\ ~(e.op = "infix" /\ e.l < 2))
       => r.probes[k + 1][r.pidx[key]] = ExpectedProbe(e.op, e.a)

JudgeB(r) ==
  LET f1 == C05B_Failures(r.h, {r.builtinIds[j] : j \in 1..Len(r.builtinIds)})
      f3 == IF TakesEffect(r) THEN {} ELSE {"accepted_registration_has_no_effect_in_the_next_parser"}
      f2 == IF \A k \in 1..Len(r.h) : (r.h[k].op # "tok" /\ r.h[k].res = -1) => r.probes[k + 1] = r.probes[k]
            THEN {} ELSE {"refused_registration_changed_the_parser"}
      \* registering a token type never changes what a parser does with the probes that do not use it
      cfg == CfgAfter(r.h, 1, [cprefix |-> {}, cinfix |-> <<>>, cpostfix |-> {}])
      same == \A j \in 1..Len(r.ftoks) :
                LET m == ParseProgram([DefaultP(MToks(r.ftoks[j])) EXCEPT !.cprefix = cfg.cprefix, !.cinfix = cfg.cinfix, !.cpostfix = cfg.cpostfix])
                IN m.tree = r.ftrees[j] /\ Len(m.errs) = r.fnerr[j]
  IN /\ (f1 \cup f2 \cup f3 = {} \/ PrintT(<<"FAIL", r.id, f1 \cup f2 \cup f3>>))
     /\ (same \/ PrintT(<<"DRIFT", r.id>>))

Judge == LET r == Trace[t] IN IF r.part = "A" THEN JudgeA(r) ELSE JudgeB(r)

Accepted == (TLCGet("distinct") = N) \/ PrintT(<<"REJECTED", TLCGet("distinct"), N>>)
=============================================================================
