SPECIFICATION Spec
CONSTANTS
  MaxInst = 2
  NestDepth = 2
  SpineDepth = 1
  NestableOnly = FALSE
  Export = TRUE
INVARIANT Inv
CHECK_DEADLOCK FALSE
