SPECIFICATION Spec
CONSTANTS
  Depth = 2
  Contexts = {1, 2, 3, 4, 5, 6, 7, 8, 9}
  DeepContexts = {1, 2, 3, 7, 8, 9}
  Export = TRUE
INVARIANT Inv
CHECK_DEADLOCK FALSE
