SPECIFICATION Spec
CONSTANTS
  Depth = 3
  Contexts = {1, 2, 3, 4, 5, 6}
  DeepContexts = {1}
  Export = TRUE
INVARIANT Inv
CHECK_DEADLOCK FALSE
