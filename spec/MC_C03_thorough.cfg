SPECIFICATION Spec
CONSTANTS
  Depth = 3
  BinDepth = 4
  Contexts = {1, 2, 3, 4, 5, 6, 7, 8, 9}
  DeepContexts = {1}
  Export = TRUE
  StmtDepth = 2
INVARIANT Inv
CHECK_DEADLOCK FALSE
