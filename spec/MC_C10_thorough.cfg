SPECIFICATION Spec
CONSTANTS
  MaxLen <- TMaxLen
  Alphabets <- MCAlphabets
  Extra = 2
  Export = TRUE
INVARIANT Inv
CHECK_DEADLOCK FALSE
