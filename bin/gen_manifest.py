#!/usr/bin/env python3
"""Regenerates /verif/MANIFEST.json from the table below (single source of truth for the interface)."""
import json, os, subprocess
V = os.path.dirname(os.path.dirname(os.path.abspath(__file__)))
props = [json.loads(l) for l in open(os.path.join(V, "properties.jsonl"))]
BASELINE = "cd /repo && go build ./... && go test -vet=off -count=1 -timeout 25m ./..."

CHECKS = {
 "C05": dict(cat="model_checking",
   text="Part A: TLC enumerates every operator string with up to the cfg's number of operators that mixes built-in operators with a registered infix operator of each level 1..13 (plus a second one at a neighbouring level), a registered prefix and a registered postfix operator; the transcribed parser model configured with these operators must group every string by level - WFX, a declarative operator-precedence well-formedness on the documented level scale, written without reference to the parsing algorithm - and each string is replayed on a real parser built with the same registrations, TLC (Trace_C05) judging the real tree (yield, WFX; level-1 operators reported) and comparing it with the model. Part B: the registration bookkeeping is the TLA+ machine XjsBuilder; TLC explores every history of RegisterTokenType / Register{Prefix,Infix,Postfix}Operator calls up to the cfg's length (invariants: ids fresh, injective, stable; a refusal changes nothing); every maximal history is replayed on a real builder pair with a parser built and probed after every call, and TLC judges the REAL replies against the declarative clause (one stable id per name, distinct from built-ins; refused iff the role is taken by the built-in grammar or an earlier registration) and that a refused registration leaves the probe results unchanged; the final parser is compared with the model configured by the machine.",
   note="Trusted: WFX as the meaning of 'groups like a left-associative built-in operator of that level'; the role table of the built-in grammar; TLC.",
   tech="TLA+ state machine of the builders + transcribed parser with registered operators; TLC exhaustive operator strings and registration histories; replay on real builders/parsers; TLC validation of recorded trees, replies and probe results", ref="DESIGN.md 5 C05"),
 "C12": dict(cat="fault_enumeration",
   text="XjsFaults defines the fault space on rendered programs of XjsPrograms (every single-token deletion, every removal of a statement separator, every truncation after a token inside an open bracket or block, every truncation inside a string/backtick literal; MC_C12L additionally cuts literals with escapes - escaped quote, escaped backslash, other quote - at every byte offset); TLC enumerates programs x faults, records the verdict of the transcribed parser/lexer model and exports every corrupted token list with the index of the last intact token; reference parsers (V8 and acorn) keep the corrupted texts that are no longer JavaScript (and whose original is); the real strict parser is run on each and TLC (Trace_C12) judges the real errors: at least one, the first not before the last intact token.",
   note="Trusted: V8 and acorn as the meaning of 'valid JavaScript' (both must reject the corrupted text and accept the original); the mechanical token-to-text spelling. Positions are compared with the real lexer's token list.",
   tech="TLA+ fault model + TLC enumeration of programs x faults with the transcribed parser's verdict; replay on the real strict parser; reference-parser filter; TLC validation of recorded errors", ref="DESIGN.md 5 C12"),
 "C13": dict(cat="model_checking",
   text="TLC runs the transcribed parser model (XjsParser) in the four mode combinations on every enumerated program x layout, on every fusable sibling boundary, on every count of removed trailing block braces and on line-break-only separators in front of `(`/`[`, and checks the mode contract on the model; each input is exported and parsed by the real parser in the four modes - the four parsers built from ONE builder that is reconfigured between the Build() calls, and also from separate builders - plus default mode on the `;`-variant; TLC (Trace_C13) judges the real results against C13_Failures (tolerant = strict on accepted programs; fused statements / open blocks accepted by tolerant mode with the program's tree; smart = default unless a bracket starts a line, and then = default with a semicolon in front of it).",
   note="Trusted: the reading of 'two statements on one line' (claimed only where the first statement cannot absorb the first token of the second and strict mode rejects) and of 'as if a semicolon preceded it' (judged when the text with the semicolon is accepted).",
   tech="TLA+ transcription of the parser with mode flags + TLC exhaustive small-scope programs x layouts x faults; replay on the real parser in 4 modes from a shared and from separate builders; TLC validation of the recorded results", ref="DESIGN.md 5 C13"),
 "C02": dict(cat="model_checking",
   text="XjsGrammar holds an ECMAScript reference grammar of the subset written independently of the parser's tables (operator levels, associativity, well-formedness, in-order yield, automatic semicolon insertion with the restricted productions) and an independent unparser; XjsPrograms enumerates every parent/child operator pair and side up to the cfg's depth in statement contexts and every sequence of statement templates; TLC renders each tree in many layouts (redundant parentheses, separators, line breaks in every permitted gap), checks that the transcribed parser model (XjsParser) returns exactly that tree, and exports each (token list, tree); the token lists are spelled out as text in several gap spellings (LF, CRLF, comments, blank lines, tight, wide, single quotes), parsed by the real parser, and TLC (Trace_C02) judges every real result: no error, stripped tree equal to the ECMAScript tree, yield/levels/ASI predicate on the real token list.",
   note="Trusted: the reference grammar of XjsGrammar as a reading of ECMAScript for the subset; TLC; the mechanical token-to-text spelling in lib/render.py.",
   tech="TLA+ reference grammar + transcribed parser model, TLC exhaustive small-scope trees x layouts; replay on the real parser; TLC validation of recorded (tokens, tree) against the declarative predicate", ref="DESIGN.md 5 C02"),
 "C09": dict(cat="model_checking",
   text="TLC explores every history of source-map builder operations up to the configured length over small parameter domains on the TLA+ machine XjsSourceMap (design-level invariants: an independent v3 decoder inverts the transcribed encoder, names deduplicated and stable, segments ordered); every maximal history, seeded random long histories and VLQ delta chains are replayed on the real SourceMapper and each observed SourceMap() snapshot is validated by TLC (Trace_C09) against the declarative property and the machine.",
   note="Trusted: the TLA+ reference decoder as a reading of Source Map v3; TLC; the harness only forwards API calls. TLC integers are 32-bit, so VLQ magnitudes are covered up to 2^29+1 (not 2^31).",
   tech="TLA+ state machine + TLC exhaustive histories; replay of TLC-exported histories on the real code; TLC trace validation of recorded snapshots", ref="DESIGN.md 5 C09"),
 "C10": dict(cat="model_checking",
   text="The lexer is transcribed into TLA+ (XjsLexer); TLC enumerates every byte string up to the configured length over five class-representative alphabets, checks the declarative tiling/position property P_C10 on the model's tokens, and exports each string; the real lexer is run on all of them (plus seeded random lexeme-fragment sequences and cut/mutated repository fixtures) under a panic/termination watchdog with extra requests after EOF, and TLC (Trace_C10) evaluates P_C10 on the REAL token lists and compares them with the model.",
   note="Trusted: P_C10 as a reading of the statement (LF is the line break for line counting and the newline flag; lone CR is whitespace), TLC, the Go watchdog for the no-panic/termination clause.",
   tech="TLA+ transcription of the lexer + TLC exhaustive small-scope inputs; replay on the real lexer; TLC validation of recorded token lists against a declarative predicate", ref="DESIGN.md 5 C10"),
 "C11": dict(cat="model_checking",
   text="The Pratt parser is transcribed into TLA+ at token level including every error path (XjsParser); TLC enumerates every token string up to the configured length over the cfg's token kinds in space- and newline-separated layout and checks on the model, in all four parser modes, that statement lists hold no nil, that an error-free result is complete, that the context stack is restored and that errors sit on tokens; every string is replayed on the real parser (four modes, panic/termination watchdog, compile in 10 configurations when error-free) together with seeded byte-level inputs, and TLC (Trace_C11) evaluates the error contract P_C11 on the REAL results and compares tree and error positions with the model run on the real tokens.",
   note="Trusted: P_C11 as a reading of the statement; error ranges are judged against the token list of the real lexer for the same input; the no-panic/termination clause is decided by the Go watchdog (recover, 5 s per case).",
   tech="TLA+ transcription of the parser + TLC exhaustive small-scope token strings; replay on the real parser; TLC validation of recorded results against a declarative predicate and the model", ref="DESIGN.md 5 C11"),
}

hooks_commits = []
m = {"version": 1, "setup_cmd": "./bin/setup",
     "hooks": {"guard": "verif", "enable": "go build -tags verif (the harness is built with -tags verif against /repo; it falls back to no tag if that does not build)",
               "baseline_off_cmd": BASELINE, "source_commits": hooks_commits, "add_only": True},
     "engines": [], "checks": [],
     "notes": "All checks: ./bin/check <id> <tier>; exit 0/1/2 = held / VIOLATION / infrastructure failure (never a violation). See DESIGN.md.",
     "not_applicable": []}
for p in props:
    i = p["id"]
    if i in CHECKS:
        c = CHECKS[i]
        m["checks"].append({"property_id": i, "quick_cmd": "./bin/check %s quick" % i, "thorough_cmd": "./bin/check %s thorough" % i,
                            "evidence_file": "/verif/evidence/%s.json" % i, "replay_cmd_template": "./bin/check --replay {path}",
                            "level_claimed": {"category": c["cat"], "text": c["text"], "design_ref": c["ref"]},
                            "level_note": c["note"], "technique": c["tech"]})
    else:
        m["not_applicable"].append({"property_id": i, "reason": "check not built yet (work in progress; see DESIGN.md build log)"})
json.dump(m, open(os.path.join(V, "MANIFEST.json"), "w"), indent=1)
print("MANIFEST: %d checks, %d not_applicable" % (len(m["checks"]), len(m["not_applicable"])))
