"""Shared plumbing for the /verif checks: scratch dirs, harness build, TLC runs, evidence,
VIOLATION / KNOWN-FINDING / DRIFT / INFRA lines.  Oracles live in the TLA+ specs, not here."""
import atexit, hashlib, json, os, random, re, shutil, signal, subprocess, sys, time

sys.setrecursionlimit(20000)      # deeply nested trees (scaled instances) in JSON

VERIF = os.path.dirname(os.path.dirname(os.path.abspath(__file__)))
REPO = os.environ.get("VERIF_REPO", "/repo")
SPEC = os.path.join(VERIF, "spec")
NCPU = os.cpu_count() or 4

GOENV = dict(GOFLAGS="-mod=mod", GOPROXY="off", GOSUMDB="off", GOTOOLCHAIN="local")


class Infra(Exception):
    """Infrastructure failure: exit 2, never a violation."""


def seed():
    try:
        return int(os.environ.get("VERIF_SEED", "1"))
    except ValueError:
        return 1


class Ctx:
    """One check run: property id, tier, scratch dir, counters, verdict lines."""

    def __init__(self, prop, tier):
        self.prop, self.tier, self.seed = prop, tier, seed()
        self.t0 = time.time()
        self.rng = random.Random(self.seed * 1000003 + int(prop[1:]))
        self.work = os.path.join(VERIF, ".work", "%s-%s-%d" % (prop, tier, os.getpid()))
        shutil.rmtree(self.work, ignore_errors=True)
        os.makedirs(self.work)
        atexit.register(self.cleanup)
        self.violations = []      # dicts written to replay files
        self.known = []           # matched known findings
        self.drift = 0
        self.cov = dict(states=0, transitions=0, traces_validated_against_impl=0, evaluations=0,
                        distinct_nontrivial=0, samples=[], tlc_runs=[])
        self.assumptions = []
        self.notes = []
        self.harness = None

    def cleanup(self):
        if os.environ.get("VERIF_KEEP_WORK"):
            return
        shutil.rmtree(self.work, ignore_errors=True)
        try:
            os.rmdir(os.path.join(VERIF, ".work"))
        except OSError:
            pass

    def log(self, *a):
        print("[%s %6.1fs]" % (self.prop, time.time() - self.t0), *a, flush=True)

    # ---------------------------------------------------------------- harness
    def build_race_harness(self):
        """The same harness built with the race detector (for C14); returns the binary path."""
        hdir = os.path.join(self.work, "harness")
        out = os.path.join(self.work, "xjsh-race")
        env = dict(os.environ, **GOENV)
        for tags in (["-tags", "verif"], []):
            p = subprocess.run(["go", "build", "-race"] + tags + ["-o", out, "."], cwd=hdir, env=env, capture_output=True, text=True)
            if p.returncode == 0:
                return out
        raise Infra("harness does not build with -race: %s" % p.stderr[-2000:])

    def build_harness(self):
        """Build the Go harness against the CURRENT working tree of REPO (hooks on if they build)."""
        hdir = os.path.join(self.work, "harness")
        shutil.copytree(os.path.join(VERIF, "harness"), hdir)
        gomod = open(os.path.join(hdir, "go.mod")).read()
        gomod = re.sub(r"=> /repo\b", "=> " + REPO, gomod)
        open(os.path.join(hdir, "go.mod"), "w").write(gomod)
        shutil.copy(os.path.join(REPO, "go.sum"), os.path.join(hdir, "go.sum"))
        env = dict(os.environ, **GOENV)
        out = os.path.join(self.work, "xjsh")
        for tags in (["-tags", "verif"], []):
            p = subprocess.run(["go", "build"] + tags + ["-o", out, "."], cwd=hdir, env=env,
                               capture_output=True, text=True)
            if p.returncode == 0:
                self.hooks_on = bool(tags)
                if not tags:
                    self.notes.append("hooks unavailable: built without -tags verif")
                self.harness = out
                return out
            err = p.stderr
        raise Infra("harness does not build against %s:\n%s" % (REPO, err[-3000:]))

    def fuzz(self, target, seconds, seeds):
        """Coverage-guided exploration with Go native fuzzing (harness/fuzz_test.go): runs `target` for
        `seconds` on all cores, seeded with `seeds` (byte strings), and returns the inputs the engine
        kept because they reached new code, plus any crasher it wrote - as byte strings, unjudged.
        An engine that cannot run is a note, not a failure: the corpus is an extra source of inputs."""
        hdir = os.path.join(self.work, "harness")
        env = dict(os.environ, **GOENV)
        seedfile = os.path.join(self.work, "fuzzseeds-%s.json" % target)
        json.dump([list(x) for x in seeds], open(seedfile, "w"))
        env["VERIF_FUZZ_SEEDS"] = seedfile
        gocache = subprocess.run(["go", "env", "GOCACHE"], env=env, capture_output=True, text=True).stdout.strip()
        cdir = os.path.join(gocache, "fuzz", "verifharness", target)
        shutil.rmtree(cdir, ignore_errors=True)
        crash = os.path.join(hdir, "testdata", "fuzz", target)
        shutil.rmtree(crash, ignore_errors=True)
        tags = ["-tags", "verif"] if getattr(self, "hooks_on", False) else []
        cmd = ["go", "test"] + tags + ["-vet=off", "-run=^$", "-fuzz=^%s$" % target, "-fuzztime=%ds" % seconds, "."]
        t0 = time.time()
        try:
            p = subprocess.run(cmd, cwd=hdir, env=env, capture_output=True, text=True, timeout=seconds + 600)
            out = p.stdout + p.stderr
        except subprocess.TimeoutExpired:
            out = "timeout"
        execs = re.findall(r"execs: (\d+)", out)
        found = []
        for d in (cdir, crash):
            if os.path.isdir(d):
                for f in sorted(os.listdir(d)):
                    b = _go_corpus_bytes(open(os.path.join(d, f), "rb").read())
                    if b is not None:
                        found.append(b)
        self.cov.setdefault("fuzzing", []).append(dict(target=target, seconds=seconds, seeds=len(seeds), execs=int(execs[-1]) if execs else 0,
                                                       corpus=len(found), engine_failed="FAIL" in out, wall_s=round(time.time() - t0, 1)))
        if not execs:
            self.notes.append("fuzzing engine did not run for %s: %s" % (target, out[-300:]))
        shutil.rmtree(cdir, ignore_errors=True)
        return found

    def run_harness(self, cmd, cases, timeout=600, case_timeout_ms=5000):
        """Run cases (list of dicts with 'id') through `xjsh cmd`; returns {id: result}.
        A hang makes the harness exit 3 after reporting it; we restart with the remaining cases."""
        results = {}
        pending = list(cases)
        env = dict(os.environ, XJSH_CASE_TIMEOUT_MS=str(case_timeout_ms))
        hangs = 0
        while pending:
            if hangs >= 4:
                # every hang costs the whole per-case budget: the remaining cases are not run
                # (they are reported as skipped; the hangs already seen are failures by themselves)
                for c in pending:
                    results[_key(c["id"])] = {"id": c["id"], "skipped": True, "hang": False}
                self.notes.append("harness %s: %d cases skipped after %d hangs" % (cmd, len(pending), hangs))
                break
            inp = "\n".join(json.dumps(c, separators=(",", ":")) for c in pending) + "\n"
            p = subprocess.run([self.harness, cmd], input=inp, capture_output=True, text=True,
                               timeout=timeout, env=env)
            got = 0
            for line in p.stdout.split("\n"):      # not splitlines(): U+0085 / U+2028 inside JSON strings are not line ends
                if not line.strip():
                    continue
                r = json.loads(line)
                results[_key(r["id"])] = r
                got += 1
            if p.returncode == 0:
                if got != len(pending):
                    raise Infra("harness %s answered %d of %d cases" % (cmd, got, len(pending)))
                break
            if p.returncode == 3 and got > 0:
                pending = pending[got:]
                hangs += 1
                continue
            fatal = "fatal error:" in p.stderr or "goroutine stack exceeds" in p.stderr     # Go runtime abort (exit status 2)
            if got < len(pending) and p.returncode != 0 and got >= 0 and (p.returncode not in (2,) or fatal):
                # crashed hard (fatal error: stack overflow, concurrent map writes, ...): the case
                # after the last answered one is the culprit
                bad = pending[got]
                results[_key(bad["id"])] = {"id": bad["id"], "crash": p.stderr[-2000:],
                                            "rc": p.returncode}
                pending = pending[got + 1:]
                continue
            raise Infra("harness %s failed rc=%s: %s" % (cmd, p.returncode, p.stderr[-2000:]))
        return results

    # -------------------------------------------------------------------- TLC
    def tlc(self, module, cfg, workers=None, timeout=900, env=None, simulate=None, extra=(),
            xss=None, heap=None, rundir=None, quiet=False):
        """Run TLC on spec/<module>.tla with spec/<cfg> in a scratch copy. Returns TlcResult."""
        run = rundir or os.path.join(self.work, "tlc-%d" % len(self.cov["tlc_runs"]))
        os.makedirs(run)
        for f in os.listdir(SPEC):
            if f.endswith(".tla") or f.endswith(".cfg"):
                shutil.copy(os.path.join(SPEC, f), run)
        jopts = []
        if xss:
            jopts.append("-Xss" + xss)
        if heap:
            jopts.append("-Xmx" + heap)
        cmd = ["java", "-XX:+UseParallelGC"] + jopts + [
            "-cp", "/opt/veriftools/tla/tla2tools.jar:/opt/veriftools/tla/CommunityModules-deps.jar",
            "tlc2.TLC", "-workers", str(workers or NCPU), "-metadir", os.path.join(run, "md"),
            "-config", cfg, "-noGenerateSpecTE"]
        if simulate:
            cmd += ["-simulate", simulate]
        cmd += list(extra) + [module + ".tla"]
        e = dict(os.environ)
        e.pop("JAVA_TOOL_OPTIONS", None)
        if env:
            e.update(env)
        t0 = time.time()
        try:
            p = subprocess.run(cmd, cwd=run, env=e, capture_output=True, text=True, timeout=timeout)
        except subprocess.TimeoutExpired:
            subprocess.run(["pkill", "-f", os.path.join(run, "md")])
            raise Infra("TLC timeout after %ds: %s %s" % (timeout, module, cfg))
        res = TlcResult(p.stdout, p.returncode, " ".join(cmd[cmd.index("tlc2.TLC"):]), time.time() - t0)
        if not quiet:
            self.cov["tlc_runs"].append(dict(cmd="tlc " + " ".join(cmd[cmd.index("tlc2.TLC") + 1:]),
                                             generated=res.generated, distinct=res.distinct,
                                             wall_s=round(res.wall, 1), ok=res.ok))
            self.cov["states"] += res.distinct
            self.cov["transitions"] += res.generated
        if os.environ.get("VERIF_KEEP_WORK"):
            open(os.path.join(run, "stdout.txt"), "w").write(p.stdout)
        else:
            shutil.rmtree(run, ignore_errors=True)
        return res


    def tlc_trace(self, module, cfg, recs, procs=None, timeout=3000, xss="64m", heap="3g", envname="VERIF_TRACE"):
        """Trace validation of recs (list of dicts) by `module`: the records are striped over `procs`
        ndjson files, each validated by its own TLC process (-workers 1) in parallel - the JSON
        deserialisation of the CommunityModules is single-threaded and dominates otherwise.
        Returns a TlcResult whose .out is the concatenation of all outputs."""
        import concurrent.futures
        procs = procs or min(NCPU, max(1, len(recs) // 500))
        procs = max(1, procs)
        base = os.path.join(self.work, "trace-%d" % len(self.cov["tlc_runs"]))
        os.makedirs(base, exist_ok=True)
        paths = []
        for k in range(procs):
            p = os.path.join(base, "shard%d.ndjson" % k)
            write_ndjson(p, recs[k::procs])
            paths.append(p)
        runs_before = len(self.cov["tlc_runs"])

        def one(p):
            return self.tlc(module, cfg, workers=1, timeout=timeout, env={envname: p}, xss=xss, heap=heap,
                            rundir=p + ".run", quiet=True)
        with concurrent.futures.ThreadPoolExecutor(max_workers=procs) as ex:
            results = list(ex.map(one, paths))
        out = "\n".join(r.out for r in results)
        agg = TlcResult(out, max(r.rc for r in results), results[0].cmd + "  (x%d shards)" % procs,
                        max(r.wall for r in results))
        agg.generated = sum(r.generated for r in results)
        agg.distinct = sum(r.distinct for r in results)
        agg.ok = all(r.ok for r in results)
        agg.error = next((r.error for r in results if not r.ok), None)
        del self.cov["tlc_runs"][runs_before:]
        self.cov["tlc_runs"].append(dict(cmd="tlc " + agg.cmd, generated=agg.generated, distinct=agg.distinct,
                                         wall_s=round(agg.wall, 1), ok=agg.ok, shards=procs, records=len(recs)))
        self.cov["states"] += agg.distinct
        self.cov["transitions"] += agg.generated
        if not os.environ.get("VERIF_KEEP_WORK"):
            shutil.rmtree(base, ignore_errors=True)
        return agg


    # ------------------------------------------------------- reference JS parsers
    def ref_parse(self, items, timeout=900):
        """items: [{id, text, tree?, allowReturn?}] -> {id: {v8, acorn, tree?}} from node's V8 and
        its bundled acorn (engine/ref.js).  Reference parsers never see xjs."""
        if shutil.which("node") is None:
            raise Infra("node is not available: no reference JavaScript parser")
        out = {}
        procs = min(NCPU, max(1, len(items) // 2000))
        import concurrent.futures

        def one(chunk):
            inp = "\n".join(json.dumps(i, separators=(",", ":")) for i in chunk) + "\n"
            p = subprocess.run(["node", "--expose-internals", os.path.join(VERIF, "engine", "ref.js")], input=inp,
                               capture_output=True, text=True, timeout=timeout)
            if p.returncode != 0:
                raise Infra("reference parser failed: %s" % p.stderr[-500:])
            return [json.loads(l) for l in p.stdout.split("\n") if l.strip()]
        with concurrent.futures.ThreadPoolExecutor(max_workers=procs) as ex:
            for rs in ex.map(one, [items[k::procs] for k in range(procs)]):
                for r in rs:
                    out[_key(r["id"])] = r
        if len(out) != len(items):
            raise Infra("reference parser answered %d of %d" % (len(out), len(items)))
        if any(r.get("acorn") is None and not r.get("skip") for r in out.values()):
            raise Infra("node's bundled acorn is not reachable (--expose-internals)")
        return out


    # ------------------------------------------------------------- JS engine
    def engine_run(self, items, timeout=1800):
        """items: [{id, code, prelude?}] -> {id: {out, end}} from V8 (node vm), engine/run.js."""
        if shutil.which("node") is None:
            raise Infra("node is not available: no JavaScript engine")
        import concurrent.futures
        procs = min(NCPU, max(1, len(items) // 1500))

        def one(chunk):
            inp = "\n".join(json.dumps(i, separators=(",", ":")) for i in chunk) + "\n"
            p = subprocess.run(["node", os.path.join(VERIF, "engine", "run.js")], input=inp, capture_output=True, text=True, timeout=timeout)
            if p.returncode != 0:
                raise Infra("engine failed: %s" % p.stderr[-500:])
            return [json.loads(l) for l in p.stdout.split("\n") if l.strip()]
        out = {}
        with concurrent.futures.ThreadPoolExecutor(max_workers=procs) as ex:
            for rs in ex.map(one, [items[k::procs] for k in range(procs)]):
                for r in rs:
                    out[_key(r["id"])] = r
        if len(out) != len(items):
            raise Infra("engine answered %d of %d" % (len(out), len(items)))
        return out

    # --------------------------------------------------------------- verdicts
    def reproduce(self, validate, items, it, clause, same=lambda a, b: True, ks=(40, 400)):
        """Re-run a failing item on a fresh harness process: alone first; if it does not fail alone, once
        more behind the items that preceded it in the original run (state carried from one instance to
        the next inside one process is what some properties are about).  Returns (None, []) /
        ("alone", []) / ("after_predecessors", [predecessor items])."""
        again = validate(self, [dict(it, id="re")])
        if again and any(a[1] == clause for a in again):
            return "alone", []
        idx = next((k for k, x in enumerate(items) if x is it or x.get("id") == it.get("id")), None)
        if idx is None:
            return None, []
        for k in ks:
            pre = [x for x in items[max(0, idx - k):idx] if same(x, it)]
            if not pre:
                break
            batch = [dict(x, id="pre%d" % n) for n, x in enumerate(pre)] + [dict(it, id="re")]
            again = validate(self, batch)
            if any(a[0].get("id") == "re" and a[1] == clause for a in again):
                # shrink: the shortest suffix of predecessors that still reproduces (halving)
                while len(pre) > 1:
                    half = pre[len(pre) // 2:]
                    b2 = [dict(x, id="pre%d" % n) for n, x in enumerate(half)] + [dict(it, id="re")]
                    r2 = validate(self, b2)
                    if any(a[0].get("id") == "re" and a[1] == clause for a in r2):
                        pre = half
                    else:
                        break
                return "after_predecessors", pre
            if idx - k <= 0:
                break
        return None, []

    def violation(self, case, clause, detail=None):
        """Record a violation observed on the REAL code (caller has reproduced it)."""
        kf = match_known(self.prop, clause, case, detail)
        if kf is not None:
            if kf not in self.known:
                self.known.append(kf)
            return
        self.violations.append(dict(property=self.prop, clause=clause, case=case, detail=detail))

    def finish(self, level, rule, exhaustive=False, extra=None):
        """Write evidence + replay files, print verdict lines, exit."""
        os.makedirs(os.path.join(VERIF, "evidence", "replays"), exist_ok=True)
        for kf in self.known:
            print("KNOWN-FINDING: property=%s %s" % (self.prop, kf["what"]))
        seen = set()
        lines = []
        for v in self.violations[:50]:
            blob = json.dumps(v, sort_keys=True)
            h = hashlib.sha1(blob.encode()).hexdigest()[:12]
            if h in seen:
                continue
            seen.add(h)
            path = os.path.join(VERIF, "evidence", "replays", "%s-%s.json" % (self.prop, h))
            json.dump(v, open(path, "w"), indent=1)
            lines.append("VIOLATION property=%s replay=%s" % (self.prop, path))
            print("  clause=%s detail=%s" % (v["clause"], json.dumps(v.get("detail"))[:400]))
        cov = dict(self.cov)
        cov["rule"] = rule
        cov["exhaustive"] = exhaustive
        cov["drift"] = self.drift
        cov["samples"] = cov["samples"][:6]
        if extra:
            cov.update(extra)
        ev = dict(property_id=self.prop, tier=self.tier, seed=self.seed, level=level, coverage=cov,
                  assumptions=self.assumptions, wall_s=round(time.time() - self.t0, 1),
                  violations=len(self.violations), notes=self.notes,
                  known_findings=[k["what"] for k in self.known])
        json.dump(ev, open(os.path.join(VERIF, "evidence", self.prop + ".json"), "w"), indent=1)
        for l in lines:
            print(l)
        self.log("done: %d violations, %d known findings, drift=%d, states=%d, traces=%d, evals=%d"
                 % (len(self.violations), len(self.known), self.drift, cov["states"],
                    cov["traces_validated_against_impl"], cov["evaluations"]))
        sys.stdout.flush()
        self.cleanup()
        os._exit(1 if self.violations else 0)


def _go_corpus_bytes(raw):
    """A Go fuzzing corpus file ("go test fuzz v1" + one line `[]byte("...")`) -> bytes, or None."""
    try:
        lines = raw.decode("utf-8").split("\n")
        if not lines[0].startswith("go test fuzz v1"):
            return None
        body = lines[1]
        a, b = body.index('("') + 2, body.rindex('")')
        q, out, i = body[a:b], bytearray(), 0
        simple = {"a": 7, "b": 8, "f": 12, "n": 10, "r": 13, "t": 9, "v": 11, "\\": 92, "'": 39, '"': 34}
        while i < len(q):
            c = q[i]
            if c != "\\":
                out += c.encode("utf-8")
                i += 1
                continue
            e = q[i + 1]
            if e == "x":
                out.append(int(q[i + 2:i + 4], 16))
                i += 4
            elif e == "u":
                out += chr(int(q[i + 2:i + 6], 16)).encode("utf-8", "surrogatepass")
                i += 6
            elif e == "U":
                out += chr(int(q[i + 2:i + 10], 16)).encode("utf-8", "surrogatepass")
                i += 10
            elif e in "01234567":
                out.append(int(q[i + 1:i + 4], 8))
                i += 4
            else:
                out.append(simple[e])
                i += 2
        return bytes(out)
    except Exception:
        return None


def _key(i):
    return json.dumps(i, sort_keys=True) if not isinstance(i, (str, int)) else i


class TlcResult:
    def __init__(self, out, rc, cmd, wall):
        self.out, self.rc, self.cmd, self.wall = out, rc, cmd, wall
        m = re.findall(r"(\d+) states generated (\d+) distinct states found", out.replace(",", ""))
        self.generated, self.distinct = (int(m[-1][0]), int(m[-1][1])) if m else (0, 0)
        self.ok = ("No error has been found" in out) or ("Finished in" in out and "Error:" not in out
                                                          and rc == 0)
        self.error = None
        if not self.ok:
            i = out.find("Error:")
            self.error = out[i:i + 700] if i >= 0 else out[-700:]

    def json_lines(self):
        """Records printed with PrintT(ToJson(..)): TLC prints them as TLA+ string literals."""
        recs = []
        for line in self.out.splitlines():
            if line.startswith('"{') or line.startswith('"['):
                try:
                    recs.append(json.loads(json.loads(line)))
                except Exception:
                    raise Infra("garbled export line from TLC: %r" % line[:200])
        return recs

    def tuples(self, tag):
        """Values printed with PrintT(<<"tag", ...>>) -> list of lists.  TLC pretty-prints long
        values over several lines; tla_values reassembles them."""
        return [v for v in tla_values(self.out) if isinstance(v, list) and v and v[0] == tag]


def _tla_to_json(text):
    """TLA+ value text (tuples, sets, strings, ints, booleans) -> JSON text (sets become arrays)."""
    out, i, n = [], 0, len(text)
    while i < n:
        c = text[i]
        if c == '"':
            j = i + 1
            while j < n and text[j] != '"':
                j += 2 if text[j] == "\\" else 1
            out.append(text[i:j + 1])
            i = j + 1
        elif text.startswith("<<", i):
            out.append("[")
            i += 2
        elif text.startswith(">>", i):
            out.append("]")
            i += 2
        elif c == "{":
            out.append("[")
            i += 1
        elif c == "}":
            out.append("]")
            i += 1
        elif text.startswith("TRUE", i):
            out.append("true")
            i += 4
        elif text.startswith("FALSE", i):
            out.append("false")
            i += 5
        else:
            out.append(c)
            i += 1
    return "".join(out)


def tla_values(out):
    """All top-level tuple values `<< ... >>` printed by PrintT in a TLC output, also when TLC
    wrapped them over several lines."""
    vals, buf, depth = [], None, 0
    for line in out.splitlines():
        if buf is None:
            if not line.startswith("<<"):
                continue
            buf, depth = [], 0
        buf.append(line.strip())
        # bracket balance outside string literals
        instr, k, L = False, 0, line
        while k < len(L):
            ch = L[k]
            if instr:
                if ch == "\\":
                    k += 1
                elif ch == '"':
                    instr = False
            elif ch == '"':
                instr = True
            elif L.startswith("<<", k):
                depth += 1
                k += 1
            elif L.startswith(">>", k):
                depth -= 1
                k += 1
            k += 1
        if depth <= 0:
            text = " ".join(buf)
            buf = None
            try:
                vals.append(json.loads(_tla_to_json(text)))
            except Exception:
                raise Infra("cannot parse a value printed by TLC: %r" % text[:300])
    return vals


def _depth(x):
    d, stack = 0, [(x, 1)]
    while stack:
        y, k = stack.pop()
        d = max(d, k)
        if isinstance(y, dict):
            stack += [(v, k + 1) for v in y.values()]
        elif isinstance(y, list):
            stack += [(v, k + 1) for v in y]
    return d


def flatten_tree(t):
    """tree {k, op, c} -> {"flat": [[k, op, arity], ...]} in prefix order (see Unflat in XjsGrammar)"""
    out, stack = [], [t]
    while stack:
        n = stack.pop()
        out.append([n["k"], n["op"], len(n["c"])])
        stack += reversed(n["c"])
    return {"flat": out}


def _flatten_deep(x):
    """replace trees nested too deeply for TLC's JSON reader (255 levels) by their flat form"""
    if isinstance(x, dict):
        if set(x.keys()) == {"k", "op", "c"}:
            return flatten_tree(x) if _depth(x) > 80 else x
        return {k: _flatten_deep(v) for k, v in x.items()}
    if isinstance(x, list):
        return [_flatten_deep(v) for v in x]
    return x


def write_ndjson(path, recs):
    with open(path, "w") as f:
        for r in recs:
            f.write(json.dumps(_flatten_deep(r), separators=(",", ":")) + "\n")


# ------------------------------------------------------------------ known findings
def load_known():
    p = os.path.join(VERIF, "known_findings.json")
    if not os.path.exists(p):
        return []
    return json.load(open(p)).get("findings", [])


def match_known(prop, clause, case, detail):
    """An OPEN finding suppresses exactly the failing inputs it lists (match.clause equal and
    match.case_sha1 listed, or match.input equal). 'fixed' entries suppress nothing."""
    blob = json.dumps(case, sort_keys=True)
    h = hashlib.sha1(blob.encode()).hexdigest()
    for kf in load_known():
        if kf.get("property") != prop or kf.get("status") != "open":
            continue
        m = kf.get("match", {})
        if m.get("clause") not in (None, clause):
            continue
        if h in m.get("case_sha1", []) or ("input" in m and m["input"] == case.get("input")) \
                or ("inputs" in m and case.get("input") in m["inputs"]) \
                or ("gen" in m and m["gen"] == case.get("gen")):
            return kf
    return None


def main_guard(fn):
    try:
        fn()
    except Infra as e:
        print("INFRA: %s" % e)
        sys.stdout.flush()
        os._exit(2)
    except subprocess.TimeoutExpired as e:
        print("INFRA: timeout %s" % e)
        sys.stdout.flush()
        os._exit(2)
    except BaseException as e:        # a bug of the machinery is never a verdict
        if isinstance(e, SystemExit):
            raise
        import traceback
        traceback.print_exc()
        print("INFRA: internal error of the checking machinery: %r" % (e,))
        sys.stdout.flush()
        os._exit(2)
