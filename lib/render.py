"""Mechanical rendering of token-kind strings exported by the TLA+ enumerators into source text."""
SPELL = dict(IDENT="a", INT="1", FLOAT="1.5", STRING='"s"', RAW_STRING="`r`", LET="let", FUNCTION="function",
             RETURN="return", IF="if", ELSE="else", WHILE="while", FOR="for", TRUE="true", FALSE="false",
             NULL="null", LPAREN="(", RPAREN=")", LBRACE="{", RBRACE="}", LBRACKET="[", RBRACKET="]",
             COMMA=",", SEMICOLON=";", COLON=":", DOT=".", ASSIGN="=", PLUS_ASSIGN="+=", MINUS_ASSIGN="-=",
             PLUS="+", MINUS="-", MULTIPLY="*", DIVIDE="/", MODULO="%", EQ="==", NOT_EQ="!=", LT="<", GT=">",
             LTE="<=", GTE=">=", AND="&&", OR="||", NOT="!", INCREMENT="++", DECREMENT="--", BADINT="0x", BIGINT="9223372036854775808", BIGFLOAT="1e999",
             DYN0="^", DYN1="@", DYN2="#", DYN3="~", DYN4="?")


def kinds_to_text(kinds, nl):
    sep = "\n" if nl else " "
    return sep.join(SPELL[k] for k in kinds) + (sep if nl and kinds else "")


def parse_fail_lines(tlc_out, tag="FAIL"):
    """<<"FAIL", id, {"a", "b"}>> (possibly wrapped over several lines by TLC) -> [(id, [clauses])]"""
    from lib import vlib
    res = []
    for v in vlib.tla_values(tlc_out):
        if isinstance(v, list) and len(v) >= 2 and v[0] == tag:
            res.append((v[1], sorted(v[2]) if len(v) > 2 and isinstance(v[2], list) else []))
    return res


# ---------------------------------------------------------------- token lists -> text
ALNUM = set("IDENT INT FLOAT LET FUNCTION RETURN IF ELSE WHILE FOR TRUE FALSE NULL BADINT".split())
PUNCT_SAFE = set("LPAREN RPAREN LBRACE RBRACE LBRACKET RBRACKET COMMA SEMICOLON COLON".split())


def spell(tok, quote='"'):
    ty, lit = tok["ty"], tok.get("lit", "")
    if ty in ("IDENT", "INT", "FLOAT"):
        return lit
    if ty == "STRING":
        # a literal body that contains a bare quote character is spelled with the other one
        bare = set()
        i = 0
        while i < len(lit):
            if lit[i] == "\\":
                i += 2
                continue
            if lit[i] in "\"'":
                bare.add(lit[i])
            i += 1
        if quote in bare:
            quote = "'" if quote == '"' else '"'
        return quote + lit + quote
    if ty == "RAW_STRING":
        return "`" + lit + "`"
    if ty == "EOF":
        return ""
    if ty in SPELL:
        return SPELL[ty]
    return lit


def toks_to_text(toks, rng=None, style="plain"):
    """Mechanical rendering of an exported token list [{ty, lit, nl}] (EOF last).  A token with nl
    gets a line break in front; style chooses HOW gaps are spelled (never whether there is a line
    break): plain | crlf | comment | blank | tight | wide | squote | mixed."""
    out = []
    prev = None
    for k in toks:
        if style == "mixed" and rng is not None:
            st = rng.choice(["plain", "crlf", "comment", "blank", "tight", "wide", "squote"])
        else:
            st = style
        if prev is not None or k.get("nl"):
            if k.get("nl"):
                gap = {"crlf": "\r\n", "comment": " // c;(\n", "blank": "\n\n  "}.get(st, "\n")
            elif st == "tight" and prev is not None and k["ty"] != "EOF" and (
                    (prev["ty"] in PUNCT_SAFE or k["ty"] in PUNCT_SAFE)):
                gap = ""
            elif st == "wide":
                gap = " \t "
            else:
                gap = " " if k["ty"] != "EOF" else ""
            out.append(gap)
        out.append(spell(k, "'" if st == "squote" else '"'))
        prev = k
    return "".join(out)
