"""Mechanical rendering of token-kind strings exported by the TLA+ enumerators into source text."""
SPELL = dict(IDENT="a", INT="1", FLOAT="1.5", STRING='"s"', RAW_STRING="`r`", LET="let", FUNCTION="function",
             RETURN="return", IF="if", ELSE="else", WHILE="while", FOR="for", TRUE="true", FALSE="false",
             NULL="null", LPAREN="(", RPAREN=")", LBRACE="{", RBRACE="}", LBRACKET="[", RBRACKET="]",
             COMMA=",", SEMICOLON=";", COLON=":", DOT=".", ASSIGN="=", PLUS_ASSIGN="+=", MINUS_ASSIGN="-=",
             PLUS="+", MINUS="-", MULTIPLY="*", DIVIDE="/", MODULO="%", EQ="==", NOT_EQ="!=", LT="<", GT=">",
             LTE="<=", GTE=">=", AND="&&", OR="||", NOT="!", INCREMENT="++", DECREMENT="--", BADINT="0x",
             DYN0="^", DYN1="@", DYN2="#", DYN3="~", DYN4="?")


def kinds_to_text(kinds, nl):
    sep = "\n" if nl else " "
    return sep.join(SPELL[k] for k in kinds) + (sep if nl and kinds else "")


def parse_fail_lines(tlc_out, tag="FAIL"):
    """<<"FAIL", id, {"a", "b"}>> -> [(id, [clauses])]"""
    import json
    res = []
    for line in tlc_out.splitlines():
        if line.startswith('<<"%s"' % tag):
            body = line.strip()[2:-2]
            head, _, rest = body.partition(", ")
            if "{" in rest:
                idpart = rest[:rest.index(", {")] if ", {" in rest else rest
                clauses = sorted(json.loads("[" + rest[rest.index("{") + 1:rest.rindex("}")] + "]"))
            else:
                idpart, clauses = rest, []
            res.append((json.loads(idpart), clauses))
    return res
