"""C09 Mapping encoding conforms to Source Map v3.
MC_C09 (TLC): all histories <= MaxLen over small domains, design-level invariants, export.
Replay on the real SourceMapper (snapshot after every op).  Trace_C09 (TLC): validates the real
snapshots against the machine (drift) and the declarative property (verdict)."""
import json
from lib import vlib

LEVEL = "model_checking"


def op(o, sl=0, sc=0, n="", k=0, b=()):
    return dict(op=o, sl=sl, sc=sc, n=n, k=k, b=list(b))


def random_histories(ctx, count, maxlen):
    r = ctx.rng
    names = ["x", "y", "z", "value", "$", "_a1"] + ["n%d" % k for k in range(14)]       # > 8, > 16 distinct names
    frag = [[97], [10], [13], [13, 10], [32], [195, 169], [9], [98, 99], [226, 128, 168], [226, 128, 169], [240, 159, 152, 128],
            [10] * 33, [97] * 600, [13, 10] * 40]    # U+2028/U+2029 are NOT line breaks here; long runs cross 32 / 512 thresholds
    big = [0, 1, 2, 7, 31, 32, 1023, 1024, 40000, 2**20, 2**29]  # TLC integers are 32-bit
    out = []
    for i in range(count):
        n = r.randint(1, maxlen)
        ops = []
        for _ in range(n):
            c = r.random()
            if c < 0.3:
                ops.append(op("map", r.choice(big), r.choice(big)))
            elif c < 0.55:
                ops.append(op("nmap", r.choice(big), r.choice(big), n=r.choice(names)))
            elif c < 0.7:
                ops.append(op("col", k=r.choice([0, 1, 2, 17, 100])))
            elif c < 0.92:
                s = []
                for _ in range(r.randint(0, 6)):
                    s += r.choice(frag)
                ops.append(op("str", b=s))
            elif c < 0.97:
                ops.append(op("line"))
            else:
                ops += [op("line")] * r.choice([31, 32, 33, 64, 100])      # a long run of unmapped generated lines
        out.append(dict(id="rnd%d" % i, ops=ops, every=len(ops) < 60))
    return out


def count_histories(quick):
    """Threshold sweeps: every count n of distinct names / segments on one line / mapped lines up to
    a bound, each name used again after all (and right after the next one) have been introduced, so
    that a table that changes representation at some size (8, 16, 32, 64, 256 ...) is crossed with
    every index on either side of it."""
    out = []
    ns = list(range(1, 41)) + ([63, 64, 65, 66] if quick else [63, 64, 65, 66, 127, 128, 129, 130, 255, 256, 257, 258, 300])
    for n in ns:
        intro = [op("nmap", i % 7, i, n="v%d" % i) for i in range(n)]
        again = [op("nmap", 1, i, n="v%d" % i) for i in reversed(range(n))]
        out.append(dict(id="names%d" % n, ops=intro + [op("col", k=1)] + again, every=False))
        inter = []
        for i in range(n):
            inter.append(op("nmap", 0, i, n="w%d" % i))
            inter.append(op("col", k=2))
            if i > 0:
                inter.append(op("nmap", 0, i - 1, n="w%d" % (i - 1)))
                inter.append(op("col", k=2))
        out.append(dict(id="namesi%d" % n, ops=inter + [op("nmap", 3, 3, n="w%d" % (n - 1))], every=n <= 20))
        segs = []
        for i in range(n):
            segs += [op("map", i, 2 * i), op("col", k=1 + i % 3)]
        out.append(dict(id="segs%d" % n, ops=segs + [op("line"), op("map", 0, 0)], every=False))
        lines = []
        for i in range(n):
            lines += [op("map", n - i, i), op("str", b=[97, 10] if i % 2 else [13, 10, 98])]
        out.append(dict(id="lines%d" % n, ops=lines + [op("nmap", 0, 0, n="z")], every=False))
    return out


def vlq_histories(lo, hi, chain):
    """The private VLQ encoder is reached through deltas of source columns: a chain of mappings
    whose consecutive source columns differ by the integers to be encoded."""
    base = 2 ** 22
    out, cur, ops, first = [], base, [op("map", 0, base)], lo
    vals = list(range(lo, hi + 1))
    for i, n in enumerate(vals):
        cur += n
        ops.append(op("map", 0, cur))
        if len(ops) > chain or i == len(vals) - 1:
            out.append(dict(id="vlq%d" % first, ops=ops, every=False))
            cur, ops, first = base, [op("map", 0, base)], n + 1
    return out


def boundary_vlq():
    out = []
    B = 2 ** 29 + 2  # TLC integers are 32-bit: |n| <= 2^29+1 keeps 2|n|+1 and B+n below 2^31
    for k in range(1, 30):
        for d in (-1, 0, 1):
            for sgn in (1, -1):
                n = sgn * (2 ** k + d)
                out.append(dict(id="vlqb%d" % n, ops=[op("map", B, B), op("map", B + n, B - n)], every=False))
    return out


def wide_values():
    """magnitudes beyond 32 bits: 2^k, 2^k +- 1 for k = 31..62, and the largest int64"""
    vs = set()
    for k in range(31, 63):
        vs |= {2 ** k - 1, 2 ** k, 2 ** k + 1}
    vs.add(2 ** 63 - 1)
    return sorted(vs)


def validate_wide(ctx, values):
    """the history AddMapping(V, V); AddMapping(0, 0) on the real mapper; Trace_C09W judges the
    mappings string against the VLQ definition on binary magnitudes (no large integers in TLC)"""
    cases = [dict(id="w%d" % v, ops=[op("map", v, v), op("map", 0, 0)]) for v in values]
    res = ctx.run_harness("smap", cases, case_timeout_ms=4000)
    recs, fails = [], []
    for c, v in zip(cases, values):
        r = res[c["id"]]
        if "obs" not in r or r.get("panic") or r.get("hang") or r.get("crash"):
            fails.append((v, "total", dict(hang=r.get("hang"), panic=r.get("panic"), crash=(r.get("crash") or "")[-300:])))
            continue
        recs.append(dict(id=c["id"], bits=[int(b) for b in reversed(bin(v)[2:])], real=r["obs"]["snaps"][-1]))
    if recs:
        t = ctx.tlc_trace("Trace_C09W", "Trace_C09W.cfg", recs, procs=1)
        if t.tuples("REJECTED") or not t.ok:
            raise vlib.Infra("Trace_C09W did not consume the trace: %s" % (t.error or t.tuples("REJECTED")))
        byid = {r["id"]: r for r in recs}
        for tag, tid, k, clause in [tuple(x) for x in t.tuples("FAIL")]:
            fails.append((int(tid[1:]), clause, dict(real=byid[tid]["real"])))
        ctx.cov["traces_validated_against_impl"] += len(recs)
    ctx.cov["evaluations"] += len(cases)
    return fails


def validate(ctx, cases):
    """replay on real code, then TLC trace validation; returns list of (case, k, clause)."""
    res = ctx.run_harness("smap", [dict(id=c["id"], ops=c["ops"]) for c in cases])
    traces = []
    for c in cases:
        r = res[c["id"]]
        if "obs" not in r or r.get("panic") or r.get("hang") or r.get("crash"):
            ctx.violation(dict(input=c["ops"]), "total", r)
            continue
        traces.append(dict(id=c["id"], ops=c["ops"], snaps=r["obs"]["snaps"], every=c.get("every", True)))
    t = ctx.tlc_trace("Trace_C09", "Trace_C09.cfg", traces, timeout=3000, xss="512m")
    if t.tuples("REJECTED") or not t.ok:
        raise vlib.Infra("Trace_C09 did not consume the trace: %s" % (t.error or t.tuples("REJECTED")))
    ctx.cov["traces_validated_against_impl"] += len(traces)
    ctx.cov["evaluations"] += sum(len(x["ops"]) if x["every"] else 1 for x in traces)
    byid = {c["id"]: c for c in traces}
    fails = []
    for tag, tid, k, clause in [tuple(x) for x in t.tuples("FAIL")]:
        fails.append((byid[tid], k, clause))
    ctx.drift += len({(x[1]) for x in t.tuples("DRIFT")})
    return fails


def run(ctx):
    quick = ctx.tier == "quick"
    mc = ctx.tlc("MC_C09", "MC_C09_quick.cfg" if quick else "MC_C09_thorough.cfg", timeout=3000)
    if not mc.ok:
        # a design-level counterexample is only a candidate (DESIGN 2.3): the model is wrong or the
        # design is; either way nothing is claimed about the code from it
        raise vlib.Infra("MC_C09 reports an error on the model: %s" % mc.error)
    exported = mc.json_lines()
    ctx.log("MC_C09: %d distinct states, %d histories exported" % (mc.distinct, len(exported)))
    cap = 20000 if quick else 150000
    if len(exported) > cap:    # every history was checked on the model; a seeded sample is replayed on the real mapper
        ctx.rng.shuffle(exported)
        ctx.notes.append("%d of %d exported histories replayed on the real SourceMapper" % (cap, len(exported)))
        exported = exported[:cap]
    cases = [dict(id="mc%d" % i, ops=e["ops"], every=True) for i, e in enumerate(exported)]
    cases += random_histories(ctx, 300 if quick else 3000, 40 if quick else 200)
    cases += vlq_histories(-(2 ** 12), 2 ** 12, 16) if quick else vlq_histories(-(2 ** 20), 2 ** 20, 32)
    cases += boundary_vlq()
    cases += count_histories(quick)
    ctx.cov["samples"] = [dict(ops=c["ops"][:8]) for c in (cases[0], cases[len(exported)], cases[-1])]
    fails = validate(ctx, cases)
    nontrivial = set()
    for c in cases:
        kinds = {o["op"] for o in c["ops"]}
        if ("map" in kinds or "nmap" in kinds) and len(c["ops"]) >= 2:
            nontrivial.add(json.dumps(c["ops"]))
    ctx.cov["distinct_nontrivial"] = len(nontrivial)
    fails.sort(key=lambda f: (f[1], len(json.dumps(f[0]["ops"]))))
    ctx.cov["failing_steps"] = len(fails)
    for c, k, clause in fails[:4]:      # smallest failing prefixes; each is reproduced in isolation
        case = dict(input=c["ops"][:k])
        # reproduce on a fresh harness process with the minimal prefix
        again = validate_single(ctx, case["input"])
        if clause in again:
            ctx.violation(case, clause, dict(real=c["snaps"][k], step=k))
        else:
            ctx.notes.append("unreproduced FAIL %s@%d %s" % (c["id"], k, clause))
    # 64-bit values: the Go API takes ints; TLC's integers are 32-bit, so these go through Trace_C09W
    wf = validate_wide(ctx, wide_values())
    ctx.cov["wide_values"] = len(wide_values())
    seenw = set()
    for v, clause, detail in sorted(wf)[:40]:
        if clause in seenw:
            continue
        again = validate_wide(ctx, [v])
        if again and again[0][1] == clause:
            seenw.add(clause)
            ctx.violation(dict(input=[op("map", v, v), op("map", 0, 0)], wide=v), clause, detail)
        else:
            ctx.notes.append("unreproduced wide FAIL %d %s" % (v, clause))
    ctx.assumptions += ["TLA+ reference decoder (XjsSourceMap!Decode) is a faithful reading of the Source Map v3 mappings grammar",
                        "line breaks are counted per advancing call; columns count bytes (DESIGN 5 C09 reading)"]
    ctx.finish(LEVEL, "histories: all op sequences <= MaxLen over the cfg domains (exported by TLC) + seeded random "
               "histories + VLQ delta chains; non-trivial = distinct histories with >=2 ops that record at least one mapping",
               exhaustive=True, extra=dict(mc_cfg="MC_C09_quick.cfg" if quick else "MC_C09_thorough.cfg"))


def validate_single(ctx, ops):
    fails = validate(ctx, [dict(id="replay", ops=ops, every=False)])
    return {cl for _, _, cl in fails}


def replay(ctx, v):
    if v["case"].get("wide") is not None:
        cl = {c for _, c, _ in validate_wide(ctx, [v["case"]["wide"]])}
    else:
        cl = validate_single(ctx, v["case"]["input"])
    print("replay C09: clauses failing now:", sorted(cl))
    if cl:
        print("VIOLATION property=C09 replay=%s" % "(same input)")
        import os
        os._exit(1)
    os._exit(0)
