"""C10 Lexing is total and tokens tile the source with exact positions.
MC_C10 (TLC): all byte strings <= MaxLen over class-representative alphabets; design-level check of
the lexer model against P_C10; export.  Replay on the real lexer (with extra requests after EOF,
under the panic/termination watchdog).  Trace_C10 (TLC): P_C10 on the REAL tokens (verdict) and
comparison with the model (drift).  Plus seeded random fragment sequences and mutated fixtures."""
import glob, json, os
from lib import vlib

LEVEL = "model_checking"
EXTRA = 2

FRAGS = [b"let", b"x", b" ", b"\n", b"\r\n", b"\r", b"\t", b"=", b"==", b"!=", b"!", b"<=", b">=", b"<", b">",
         b"&&", b"||", b"&", b"|", b"++", b"--", b"+=", b"-=", b"+", b"-", b"*", b"/", b"%", b"//", b"// c\n",
         b"/*", b"(", b")", b"{", b"}", b"[", b"]", b",", b";", b":", b".", b"\"", b"'", b"`", b"\\", b"\\x4", b"\\u00",
         b"\\u{1F", b"\\\n", b"\\`", b"${", b"0", b"1", b"9", b"0x", b"0xF", b"0b1", b"0o7", b"1.5", b"1e", b"1e+",
         b"e", b"E", b"_a", b"$", b"function", b"return", b"if", b"else", b"while", b"for", b"true", b"false",
         b"null", b"iff", b"\x00", b"\xc3\xa9", b"\xff", b"\xe2\x80\xa8", b"#", b"@", b"~", b"^", b"?",
         b"\xef\xbb\xbf", b"#!", b"\\u{0000041}", b"\\u{1F6000}", b"1_000", b"0xFF_FF", b"\xe2\x80\xa9", b"\xf0\x9f\x98\x80",
         b"'\\u{0000000041}'", b"\"a\\\nb\"", b"`a\nb`", b"08", b"017"]
# lexemes whose handling depends on WHERE they are: each is also put at the very start of an input
STARTERS = [b"\xef\xbb\xbf", b"#!", b"\xef\xbb\xbflet x", b"#!/usr/bin/env xjs\n", b"\xfe\xff", b"\n", b"\r\n", b"// c"]


def random_inputs(ctx, count, maxfrag):
    r = ctx.rng
    out = []
    for i in range(count):
        n = r.randint(1, maxfrag)
        s = b"".join(r.choice(FRAGS) for _ in range(n))
        if i % 8 == 0:
            s = STARTERS[(i // 8) % len(STARTERS)] + s
        out.append(dict(id="rnd%d" % i, src=list(s), extra=EXTRA))
    return out


def fixture_inputs(ctx, count):
    """repository fixtures, whole and cut/mutated at random byte positions"""
    r = ctx.rng
    out = []
    files = sorted(glob.glob(os.path.join(vlib.REPO, "testdata", "*.js")))
    for f in files:
        b = open(f, "rb").read()
        if len(b) <= 1500:
            out.append(dict(id="fix:" + os.path.basename(f), src=list(b), extra=EXTRA))
    for i in range(count):
        b = open(r.choice(files), "rb").read()
        a = r.randrange(0, max(1, len(b)))
        chunk = bytearray(b[a:a + r.randint(1, 60)])
        for _ in range(r.randint(0, 2)):
            if chunk:
                chunk[r.randrange(len(chunk))] = r.choice(b"\"'`\\\n\r/\x00 +-=<>!&|\xe9")
        out.append(dict(id="mut%d" % i, src=list(chunk), extra=EXTRA))
    return out


def validate(ctx, cases, shards=16):
    res = ctx.run_harness("lex", cases)
    recs, fails = [], []
    for c in cases:
        r = res[c["id"]]
        if r.get("panic") or r.get("hang") or r.get("crash") or r.get("obs", {}).get("overflow"):
            fails.append((c, "total", dict(panic=r.get("panic"), hang=r.get("hang"), crash=r.get("crash"),
                                           overflow=r.get("obs", {}).get("overflow"))))
            continue
        recs.append(dict(id=c["id"], src=c["src"], extra=c["extra"], toks=r["obs"]["toks"]))
    if recs:
        t = ctx.tlc_trace("Trace_C10", "Trace_C10.cfg", recs, timeout=3000, xss="256m")
        if t.tuples("REJECTED") or not t.ok:
            raise vlib.Infra("Trace_C10 did not consume the trace: %s" % (t.error or t.tuples("REJECTED")))
        byid = {c["id"]: c for c in recs}
        from lib import render
        for tid, clauses in render.parse_fail_lines(t.out):
            fails.append((byid[tid], "+".join(clauses), dict(toks=byid[tid]["toks"])))
        ctx.drift += len(t.tuples("DRIFT"))
        ctx.cov["traces_validated_against_impl"] += len(recs)
    ctx.cov["evaluations"] += len(cases)
    return fails


def run(ctx):
    quick = ctx.tier == "quick"
    cfg = "MC_C10_quick.cfg" if quick else "MC_C10_thorough.cfg"
    mc = ctx.tlc("MC_C10", cfg, timeout=3000, xss="256m")
    if not mc.ok:
        raise vlib.Infra("MC_C10 reports an error on the model: %s" % mc.error)
    exported = mc.json_lines()
    ctx.log("MC_C10: %d states, %d byte strings exported" % (mc.distinct, len(exported)))
    cases = [dict(id="mc%d" % i, src=e["src"], extra=EXTRA) for i, e in enumerate(exported)]
    cases += random_inputs(ctx, 1500 if quick else 20000, 12 if quick else 30)
    cases += fixture_inputs(ctx, 300 if quick else 5000)
    if not quick:
        # coverage-guided exploration of the real lexer: the corpus the fuzzing engine keeps is judged like every other input
        seeds = FRAGS + STARTERS + [bytes(c["src"]) for c in cases[-200:]]
        for i, b in enumerate(ctx.fuzz("FuzzLex", int(os.environ.get("VERIF_FUZZ_SECONDS", "90")), seeds)):
            cases.append(dict(id="fz%d" % i, src=list(b), extra=EXTRA))
    ctx.cov["samples"] = [dict(src=bytes(c["src"]).decode("latin-1")) for c in (cases[777 % len(cases)], cases[len(exported)], cases[-1])]
    fails = validate(ctx, cases)
    ctx.cov["distinct_nontrivial"] = len({bytes(c["src"]) for c in cases if len(c["src"]) >= 2})
    ctx.cov["failing_inputs"] = len(fails)
    fails.sort(key=lambda f: len(f[0]["src"]))
    seen = set()
    for c, clause, detail in fails:
        if clause in seen and len(seen) >= 1 and len(ctx.violations) >= 6:
            continue
        seen.add(clause)
        again = validate(ctx, [dict(id="re", src=c["src"], extra=c["extra"])])   # reproduce in a fresh process
        if again and again[0][1] == clause:
            ctx.violation(dict(input=c["src"], text=bytes(c["src"]).decode("latin-1")), clause, detail)
        else:
            ctx.notes.append("unreproduced failure on %r" % bytes(c["src"]))
        if len(ctx.violations) >= 6:
            break
    ctx.assumptions += ["line break = LF for line counting and the after-newline flag (lone CR is whitespace); reading in DESIGN 5 C10",
                        "a // comment is taken to run to the next LF or to the next token start (a NUL byte ends a comment in this lexer)"]
    ctx.finish(LEVEL, "byte strings: every string <= MaxLen[alphabet] over 5 class-representative alphabets (TLC export) + "
               "seeded random lexeme-fragment sequences + repository fixtures whole/cut/mutated (+ thorough: the corpus of a coverage-guided fuzzing run on the real lexer); non-trivial = distinct inputs of >= 2 bytes",
               exhaustive=True, extra=dict(mc_cfg=cfg))


def replay(ctx, v):
    f = validate(ctx, [dict(id="replay", src=v["case"]["input"], extra=EXTRA)])
    print("replay C10:", [(x[1]) for x in f])
    if f:
        print("VIOLATION property=C10 replay=(same input)")
    os._exit(1 if f else 0)
