"""C12 Strict mode never silently accepts malformed programs.
MC_C12 (TLC): every program of the program space x every fault of XjsFaults (single-token deletion,
separator removal, truncation after a token inside an open bracket/block, truncation inside a
string/backtick literal); the parser model's verdict is exported with each corrupted token list.
Reference parsers (V8 and acorn, via node) decide whether the original is JavaScript and the
corrupted text is not; the REAL strict parser is run on every such text and Trace_C12 (TLC) judges
its errors against C12_Failures (some error; first error not before the last intact token)."""
import os
from lib import vlib, render
from props import c02

LEVEL = "fault_enumeration"


def corrupt_text(f, variant=0):
    toks = f["toks"]
    if f["cut"]:
        head = [k for k in toks[:f["cut"] - 1]]
        lit = toks[f["cut"] - 1]
        text = render.toks_to_text(head + [dict(ty="EOF", lit="", nl=False)])
        q = "`" if lit["ty"] == "RAW_STRING" else '"'
        gap = "\n" if lit.get("nl") else (" " if head else "")
        return text + gap + q + (lit["lit"] if variant else "")
    return render.toks_to_text(toks)


def validate(ctx, items):
    """items: {id, kind, intact, text}: reference-rejected corrupted texts"""
    cases = [dict(id=i["id"], src=list(i["text"].encode()), cfg=dict(tolerant=False, smart=False), compile=False) for i in items]
    res = ctx.run_harness("parse", cases, case_timeout_ms=5000)
    recs, fails = [], []
    byid = {i["id"]: i for i in items}
    for i in items:
        r = res[i["id"]]
        if r.get("panic") or r.get("hang") or r.get("crash") or "obs" not in r:
            fails.append((i, "total", dict(panic=r.get("panic"), hang=r.get("hang"), crash=r.get("crash"))))
            continue
        o = r["obs"]
        recs.append(dict(id=i["id"], kind=i["kind"], intact=i["intact"],
                         toks=[dict(ty=k["ty"], sl=k["sl"], sc=k["sc"]) for k in o["toks"]],
                         errors=[dict(sl=e["sl"], sc=e["sc"], msg=e["msg"]) for e in o["errors"]]))
    obs = {r["id"]: r for r in recs}
    if recs:
        t = ctx.tlc_trace("Trace_C12", "Trace_C12.cfg", recs)
        if t.tuples("REJECTED") or not t.ok:
            raise vlib.Infra("Trace_C12 did not consume the trace: %s" % (t.error or t.tuples("REJECTED")))
        for tid, clauses in render.parse_fail_lines(t.out):
            fails.append((byid[tid], "+".join(clauses), dict(errors=obs[tid]["errors"][:3])))
        ctx.cov["traces_validated_against_impl"] += len(recs)
    ctx.cov["evaluations"] += len(cases)
    return fails


def run(ctx):
    quick = ctx.tier == "quick"
    exported, _ = c02.mc_export(ctx, "MC_C12", "MC_C12_quick.cfg" if quick else "MC_C12_thorough.cfg")
    origs, items = [], []
    for n, e in enumerate(exported):
        origs.append(dict(id="o%d" % n, text=render.toks_to_text(e["orig"])))
        for k, f in enumerate(e["faults"]):
            for v in ((0, 1) if f["cut"] else (0,)):
                items.append(dict(id="o%d:f%d:%d" % (n, k, v), prog=n, kind=f["kind"], intact=f["intact"], model=f["model"],
                                  text=corrupt_text(f, v)))
    # truncation at every byte offset inside string / backtick literals with escapes
    lexp, _ = c02.mc_export(ctx, "MC_C12L", "MC_C12L_quick.cfg" if quick else "MC_C12L_thorough.cfg")
    base = len(exported)
    fulls = {}
    for e in lexp:
        full = bytes(e["full"]).decode("latin-1")
        if full not in fulls:
            fulls[full] = base + len(fulls)
            origs.append(dict(id="o%d" % fulls[full], text=full))
        items.append(dict(id="o%d:c%d" % (fulls[full], len(e["src"])), prog=fulls[full], kind="lit", intact=e["intact"],
                          model="rejects" if e["model_illegal"] else "accepts", text=bytes(e["src"]).decode("latin-1")))
    nprog = base + len(fulls)
    ref = ctx.ref_parse(origs)
    valid = {n for n in range(nprog) if ref["o%d" % n].get("v8") and ref["o%d" % n].get("acorn")}
    ctx.log("%d of %d rendered programs are JavaScript for both reference parsers" % (len(valid), nprog))
    items = [i for i in items if i["prog"] in valid]
    seen, uniq = set(), []
    for i in items:
        if (i["text"], i["intact"]) not in seen:
            seen.add((i["text"], i["intact"]))
            uniq.append(i)
    items = uniq
    ref2 = ctx.ref_parse([dict(id=i["id"], text=i["text"]) for i in items])
    # a text rejected only because a name is declared twice is not a matter of syntax (xjs has no scope analysis)
    redecl = lambda r: "already been declared" in (r.get("v8err") or "") or "already been declared" in (r.get("acornerr") or "")
    ctx.cov["rejected_for_redeclaration_skipped"] = sum(1 for i in items if redecl(ref2[i["id"]]))
    rejected = [i for i in items if not ref2[i["id"]].get("skip") and not ref2[i["id"]]["v8"] and not ref2[i["id"]]["acorn"] and not redecl(ref2[i["id"]])]
    disagree = sum(1 for i in items if ref2[i["id"]].get("v8") != ref2[i["id"]].get("acorn"))
    ctx.log("%d distinct corrupted texts, %d rejected by both reference parsers (%d reference disagreements skipped)"
            % (len(items), len(rejected), disagree))
    ctx.cov["programs"] = len(valid)
    ctx.cov["faults_injected"] = len(items)
    ctx.cov["faults_no_longer_javascript"] = len(rejected)
    ctx.cov["reference_disagreements_skipped"] = disagree
    ctx.cov["by_kind"] = {k: sum(1 for i in rejected if i["kind"] == k) for k in ("del", "fuse", "trunc", "lit")}
    ctx.cov["model_accepts_but_not_javascript"] = sum(1 for i in rejected if i["model"] == "accepts")
    ctx.cov["samples"] = [dict(kind=i["kind"], text=i["text"], intact=i["intact"]) for i in
                          (rejected[3 % len(rejected)], rejected[len(rejected) // 2], rejected[-1])]
    fails = validate(ctx, rejected)
    ctx.cov["distinct_nontrivial"] = len(rejected)
    ctx.cov["failing_inputs"] = len(fails)
    fails.sort(key=lambda f: len(f[0]["text"]))
    done = {}
    for it, clause, detail in fails:
        key = clause
        if done.get(key, 0) >= 6:
            continue
        tries = getattr(ctx, '_tries', None) or {}
        ctx._tries = tries
        tries[key] = tries.get(key, 0) + 1
        if tries[key] > 12:
            continue    # enough attempts to reproduce this clause
        again = validate(ctx, [dict(it, id="re")])
        if again and again[0][1] == clause:
            done[key] = done.get(key, 0) + 1
            ctx.violation(dict(input=list(it["text"].encode()), text=it["text"], kind=it["kind"], intact=it["intact"]), clause, detail)
        else:
            ctx.notes.append("unreproduced failure on %r" % it["text"])
    ctx.assumptions += ["'no longer valid JavaScript' = rejected by BOTH V8 (vm.Script) and acorn (script, ES2020); originals must be accepted by both",
                        "positions are compared with the token list the real lexer returns for the corrupted text"]
    ctx.finish(LEVEL, "programs of XjsPrograms (spines in statement contexts, statement-template sequences) rendered with `;` and with line-break "
               "separators x every single-token deletion, every separator removal, every truncation inside an open bracket/block, every "
               "truncation inside a string/backtick literal; non-trivial = distinct corrupted texts rejected by both reference parsers",
               exhaustive=True)


def replay(ctx, v):
    c = v["case"]
    f = validate(ctx, [dict(id="replay", kind=c["kind"], intact=c["intact"], text=c["text"])])
    print("replay C12:", [x[1] for x in f])
    if f:
        print("VIOLATION property=C12 replay=(same input)")
    os._exit(1 if f else 0)
