"""C06 Pretty printing changes layout only, and is stable  (and the machinery of C15).
MC_C06 (TLC): decorated programs - statement sequences rendered with `;` separators, with `//`
comments (own line / trailing) and blank-line runs at every statement-level position - exported as
token lists; for undecorated programs the printer model's text is exported as well.  Each text is
compiled by the REAL compiler in compact mode and in pretty configurations (indent units x
semicolons), each output is lexed, parsed again and compiled again, and the code-writer operations
are recorded through the verif hook.  Trace_C06 (TLC) judges C06_Failures / C15_Failures of
XjsLayout on the real outputs, replays the recorded operations on the XjsWriter machine and
compares the printer model's text with the real one (drift)."""
import os, re
from lib import vlib, render
from props import c02

LEVEL = "model_checking"
WHICH = "C06"
CFGS = ["compact", "pretty:default:semi", "pretty:default:nosemi", "pretty:tab:semi", "pretty:tab:nosemi", "pretty:0:semi", "pretty:0:nosemi", "pretty:4:nosemi", "pretty:8:semi"]
TRACED = ["compact", "pretty:default:semi", "pretty:tab:nosemi"]
MODEL = ["compact", "pretty:default:semi", "pretty:tab:nosemi"]
TEXTS = [" x", "x", " a = 1;", ' "q', " // y", "/", " }", " t  ", " wrap `x", " caf\xc3\xa9 \xe2\x86\x92 \xe4\xb8\xad",
         # characters next to the line/paragraph separators (U+202A.., U+2038..), NEL, NBSP, BOM inside a comment
         " TODO\xe2\x80\xbc a\xe2\x80\xaf! b()", " n\xc2\x85e\xc2\xa0l\xef\xbb\xbf z\xe2\x80\xaa\xe2\x80\xb9q\xe2\x80\xba"]


def wcfg(name):
    pretty = name.startswith("pretty")
    parts = name.replace("+map", "").split(":")
    unit = []
    if pretty:
        u = parts[1]
        unit = [9] if u == "tab" else ([32, 32] if u == "default" else [32] * int(u))
    return dict(pretty=pretty, unit=unit, semis=(not pretty) or parts[2] == "semi", map=name.endswith("+map"))


def unsafe(s):
    out, i = bytearray(), 0
    while i < len(s):
        if s[i] == "\\" and s[i + 1:i + 2] == "\\":
            out.append(92)
            i += 2
        elif s[i] == "\\" and s[i + 1:i + 2] == "x":
            out.append(int(s[i + 2:i + 4], 16))
            i += 4
        else:
            out += s[i].encode("latin-1")
            i += 1
    return bytes(out)


def model_ops(ops):
    res = []
    for o in ops:
        op, arg = o["op"], unsafe(o["arg"])
        if op == "WriteString":
            res.append(dict(op="str", s=list(arg)))
        elif op == "WriteRune":
            if len(arg) != 1:
                res.append(dict(op="str", s=list(arg)))
            else:
                res.append(dict(op="rune", r=arg[0]))
        elif op == "WriteSemi":
            res.append(dict(op="semi"))
        elif op == "forgetOmittedSemi":
            res.append(dict(op="forget"))
        elif op == "SeparateOperator":
            if arg:
                res.append(dict(op="sep", r=arg[0]))
        elif op in ("IncreaseIndent", "DecreaseIndent", "WriteIndent", "WriteNewline", "WriteSpace"):
            res.append(dict(op=dict(IncreaseIndent="inc", DecreaseIndent="dec", WriteIndent="indent", WriteNewline="nl", WriteSpace="space")[op]))
        elif op == "WriteLeadingComments":
            body, _, n = arg.rpartition(b"\x00#")
            n = int(n)
            cs = body.split(b"\x00") if n > 0 else []
            assert len(cs) == n, (arg, cs, n)
            res.append(dict(op="lead", cs=[list(c) for c in cs]))
        elif op in ("AddMapping", "AddNamedMapping"):
            l, c, name = arg.decode("latin-1").split(":", 2)
            res.append(dict(op="map", sl=int(l), sc=int(c), name=name))
        else:
            raise vlib.Infra("unknown writer op %r" % op)
    return res


def spell(toks, decorated=True):
    """token list with `pre` decorations -> text"""
    out = []
    first = True
    for k in toks:
        pre = k.get("pre") or []
        if not decorated:
            pre = []
        s = ""
        at_line_start = first or (out and out[-1].endswith("\n"))
        for it in pre:
            if it == "B":
                if not at_line_start:
                    s += "\n"
                s += "\n"
                at_line_start = True
            elif it[0] == "T":
                s += (" //" if not at_line_start else "//") + TEXTS[int(it[1:])] + "\n"
                at_line_start = True
            elif it[0] == "O":
                if not at_line_start:
                    s += "\n"
                s += "//" + TEXTS[int(it[1:])] + "\n"
                at_line_start = True
        if not pre:
            if not first:
                s = "\n" if k["nl"] else (" " if k["ty"] != "EOF" else "")
        elif k["nl"] and not at_line_start:
            s += "\n"
        elif not at_line_start and not s:
            s = " "
        out.append(s + render.spell(k))
        first = False
    return "".join(out)


def safe(s):
    """the harness's safeStr on a latin-1 text (bytes as characters)"""
    return "".join("\\\\" if c == "\\" else ("\\x%02x" % ord(c) if (ord(c) < 0x20 and c != "\n") or ord(c) > 0x7e else c) for c in s)


def gen_comments(toks):
    """the comment texts the generator put into the text (as the lexer documents them: without the
    trailing spaces), in order"""
    out = []
    for k in toks:
        for it in k.get("pre") or []:
            if it != "B":
                out.append(safe(TEXTS[int(it[1:])].rstrip(" ")))
    return out


def validate(ctx, items, which=None):
    which = which or WHICH
    cases = []
    for it in items:
        cases.append(dict(id=it["id"], src=list(it["text"].encode("latin-1")), cfgs=CFGS, trace=TRACED))
        if it.get("plain") is not None and it["plain"] != it["text"]:
            cases.append(dict(id=it["id"] + "|plain", src=list(it["plain"].encode("latin-1")), cfgs=CFGS, trace=[]))
    res = ctx.run_harness("compile", cases, case_timeout_ms=8000)
    recs, fails = [], []
    hooks = True
    for it in items:
        r = res[it["id"]]
        if r.get("panic") or r.get("hang") or r.get("crash") or "obs" not in r:
            fails.append((it, "total", dict(panic=r.get("panic"), hang=r.get("hang"), crash=r.get("crash"))))
            continue
        o = r["obs"]
        if o["snerr"] > 0:
            if not str(it["id"]).startswith(("fix", "opt")):     # a fixture may use syntax of a plugin (===): not in the subset; "opt": see build_items
                fails.append((it, "decorated_program_rejected", dict(err0=o.get("serr0"))))
            continue
        if any(x.get("panic") for x in o["outs"]):
            fails.append((it, "total", dict(panic=[x["panic"] for x in o["outs"] if x.get("panic")][0])))
            continue
        hooks = hooks and o.get("hooks", False)
        slim = lambda ts: [dict(ty=k["ty"], lit=k["lit"], sl=k["sl"], sc=k["sc"], el=k["el"], lead=k["lead"]) for k in ts]
        rec = dict(id=it["id"], stoks=slim(o["stoks"]), stree=o["stree"],
                   outs={x["cfg"]: dict(code=x["code"], nerr=x["nerr"], tree=x["tree"], code2=x["code2"] or [], otoks=slim(x["otoks"])) for x in o["outs"]},
                   traced={x["cfg"]: dict(wcfg(x["cfg"]), ops=model_ops(x["ops"])) for x in o["outs"] if x.get("ops")},
                   mouts={n: it["mouts"][i] for i, n in enumerate(MODEL)} if it.get("mouts") else {})
        if it.get("gcomments") is not None:
            rec["gcomments"] = it["gcomments"]
        pr = res.get(it["id"] + "|plain")
        if pr and "obs" in pr and pr["obs"]["snerr"] == 0:
            po = {x["cfg"]: x for x in pr["obs"]["outs"]}
            rec["plain"] = dict(compact=po["compact"]["code"],
                                ptoks={n: [[k["ty"], k["lit"]] for k in po[n]["otoks"] if k["ty"] != "SEMICOLON"] for n in po if n != "compact"})
        recs.append(rec)
    if not hooks:
        ctx.notes.append("hooks unavailable: writer-operation traces not recorded")
    byid = {it["id"]: it for it in items}
    obs = {r["id"]: r for r in recs}
    if recs:
        t = ctx.tlc_trace("Trace_C06", "Trace_C06.cfg", recs, xss="128m", heap="4g")
        if t.tuples("REJECTED") or not t.ok:
            raise vlib.Infra("Trace_C06 did not consume the trace: %s" % (t.error or t.tuples("REJECTED")))
        for tid, clauses in render.parse_fail_lines(t.out, "FAIL" if which == "C06" else "FAIL15"):
            o = obs[tid]
            fails.append((byid[tid], "+".join(clauses), {n: bytes(v["code"]).decode("latin-1") for n, v in o["outs"].items()
                                                        if n in ("compact", "pretty:default:semi", "pretty:tab:nosemi")}))
        d = t.tuples("DRIFT")
        ctx.drift += len(d)
        if d:
            ctx.notes.append("drift examples: %s" % [(x[1], x[2]) for x in d[:5]])
        ctx.cov["traces_validated_against_impl"] += len(recs)
        ctx.cov["writer_traces_replayed"] = ctx.cov.get("writer_traces_replayed", 0) + sum(len(r["traced"]) for r in recs)
    ctx.cov["evaluations"] += len(cases) * len(CFGS)
    return fails


def fixture_items():
    """the repository's own fixtures (testdata/*.js), as they are and with Windows line endings"""
    import glob
    out = []
    for f in sorted(glob.glob(os.path.join(vlib.REPO, "testdata", "*.js"))):
        text = open(f, "rb").read().decode("latin-1")
        name = os.path.basename(f)
        out.append(dict(id="fix:" + name, text=text, plain=None, mouts=None, decorated=True))
        out.append(dict(id="fixcrlf:" + name, text=text.replace("\n", "\r\n"), plain=None, mouts=None, decorated=True))
    return out


def build_items(ctx, quick):
    exported, _ = c02.mc_export(ctx, "MC_C06", "MC_C06_quick.cfg" if quick else "MC_C06_thorough.cfg")
    items, seen = [], set()
    for n, e in enumerate(exported):
        text = spell(e["toks"])
        if text in seen:
            continue
        seen.add(text)
        plain = spell(e["toks"], decorated=False)
        items.append(dict(id="m%d" % n, text=text, plain=plain, mouts=e.get("mouts") or None,
                          decorated=any(k.get("pre") for k in e["toks"]), inner=bool(e.get("inner")), triple=bool(e.get("triple")),
                          gcomments=None if e.get("inner") else gen_comments(e["toks"])))
    und = [i for i in items if not i["decorated"]]
    dec = [i for i in items if i["decorated"] and not i["inner"] and not i["triple"]]
    tri = [i for i in items if i["triple"]]
    ctx.rng.shuffle(tri)
    tri = tri[:450 if quick else 5000]
    inner = [i for i in items if i["inner"]]
    ctx.rng.shuffle(dec)
    ctx.rng.shuffle(inner)
    cap = 3500 if quick else 50000
    icap = 1400 if quick else 25000
    ctx.cov["inner_decorated_programs"] = dict(enumerated=len(inner), compiled=min(len(inner), icap))
    from props import scale
    big = []
    few = ("nest_blk", "nest_if", "nest_fn", "nest_fnexpr", "nest_call", "nest_obj", "rep_call1", "rep_if_else", "rep_let_fn", "long_str", "many_names")
    for s in scale.items(ctx, quick, max_nest=17 if quick else 40, max_n=17 if quick else 260):
        if quick and s["fam"] not in few:
            continue
        big.append(dict(id=s["id"], text=s["text"], plain=None, mouts=None, decorated=True))
        if "\n" in s["text"] and s["fam"].startswith("rep_"):      # a comment and a blank line in front of every line
            lines = s["text"].split("\n")
            txt = "\n".join("// c%d\n\n%s" % (k, ln) if ln.strip() else ln for k, ln in enumerate(lines))
            big.append(dict(id=s["id"] + ":trivia", text=txt, plain=s["text"], mouts=None, decorated=True))
    # one instance beyond 512 trivia entries in a single text (185 of the n = 130 repetition's
    # lines, a comment and a blank line in front of each: ~555 entries); first, so that it is
    # judged by a shard from the start
    huge = []
    for s in scale.items(ctx, quick, families=("rep_call1",), max_n=130):
        if s["n"] == 130 and "\n" in s["text"]:
            lines = [ln for ln in s["text"].split("\n") if ln.strip()]
            plain = "\n".join(lines + lines[:55])
            txt = "\n".join("// c%d\n\n%s" % (k, ln) if ln.strip() else ln for k, ln in enumerate(plain.split("\n")))
            huge.append(dict(id=s["id"] + ":x185:trivia", text=txt, plain=plain, mouts=None, decorated=True))
    # comments without text (`//` alone on a line, as in banner comments): see known_findings.json
    empties = [dict(id="empty:%d" % n, text=t, plain=None, mouts=None, decorated=True, inner=False, gcomments=g)
               for n, (t, g) in enumerate([("a\n//\nb", [""]), ("//\n// x\n//\nlet y = 1\n", ["", " x", ""]),
                                           ("function f() {\n  a //\n}", [""])])]
    # statement forms this parser does not accept today (empty statements): judged only if a tree under
    # test accepts them - a comment in front of an empty statement is a comment in a statement list
    optional = [dict(id="opt:%d" % n, text=t, plain=None, mouts=None, decorated=True, inner=False, gcomments=g)
                for n, (t, g) in enumerate([("a;\n// c\n;\nb", [" c"]), ("a; // t\n;\nb", [" t"]),
                                            ("function f() {};\n// note\n;(function(){})()", [" note"]),
                                            ("{\n  a;\n  // in\n  ;\n}", [" in"]), ("// first\n;\na", [" first"])])]
    und = und + empties + optional
    return huge[:1] + und + fixture_items() + big + tri + dec[:cap] + inner[:icap], len(und) + len(huge[:1]), len(dec) + len(inner) + len(tri)


def run(ctx, which=None):
    which = which or WHICH
    quick = ctx.tier == "quick"
    items, nund, ndec = build_items(ctx, quick)
    ctx.log("%d undecorated + %d of %d decorated programs" % (nund, len(items) - nund, ndec))
    ctx.cov["samples"] = [dict(text=i["text"]) for i in (items[1], items[nund + 3], items[-1])]
    fails = validate(ctx, items, which)
    ctx.cov["distinct_nontrivial"] = len(items)
    ctx.cov["failing_inputs"] = len(fails)
    fails.sort(key=lambda f: len(f[0]["text"]))
    done = {}
    for it, clause, detail in fails:
        if done.get(clause, 0) >= 3:
            continue
        tries = getattr(ctx, '_tries', None) or {}
        ctx._tries = tries
        tries[clause] = tries.get(clause, 0) + 1
        if tries[clause] > 12:
            continue    # enough attempts to reproduce this clause
        again = validate(ctx, [dict(it, id="re")], which)
        if again and again[0][1] == clause:
            before = len(ctx.violations)
            ctx.violation(dict(input=list(it["text"].encode("latin-1")), text=it["text"], plain=it.get("plain"), gcomments=it.get("gcomments")), clause, detail)
            if len(ctx.violations) > before:      # a listed known finding does not use up the budget of its clause
                done[clause] = done.get(clause, 0) + 1
            else:
                tries[clause] -= 1
        else:
            ctx.notes.append("unreproduced failure on %r" % it["text"])
    if which == "C06":
        ctx.assumptions += ["'indentation options change only leading whitespace': lines that begin inside a multi-line literal must be identical, other lines equal after removing leading blanks",
                            "'the semicolon option changes only statement-terminating semicolons': after deleting every `;` token outside for(...) headers the two texts are byte-identical"]
    else:
        ctx.assumptions += ["statement-level = in front of the first token of a statement, of the closing brace of a block / function body, or of the end of input (read off the real tree)",
                            "'verbatim' is modulo trailing spaces (the lexer strips them); own-line vs trailing placement is not claimed; runs of blank lines count as one"]
    ctx.finish(LEVEL, "statement sequences of XjsPrograms templates + hazard/brace-less/nested extras (top level and function body) with `;`-separated "
               "one-line and multi-line layouts, undecorated and with one or two statement-level decorations out of 8 kinds (own-line / trailing "
               "comment, blank line, combinations) x 8 comment texts; %d compiler configurations each; non-trivial = distinct texts" % len(CFGS),
               exhaustive=False)


def replay(ctx, v, which=None):
    which = which or WHICH
    c = v["case"]
    f = validate(ctx, [dict(id="replay", text=c["text"], plain=c.get("plain"), gcomments=c.get("gcomments"))], which)
    print("replay %s:" % which, [x[1] for x in f])
    if f:
        print("VIOLATION property=%s replay=(same input)" % which)
    os._exit(1 if f else 0)
