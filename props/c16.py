"""C16 Parsing-context queries reflect the real nesting.
Same machinery as C04 (MC_C04 enumerates the nested programs and the interceptor histories, the
model's event log must satisfy C16_Failures at design level); here the verdict is C16_Failures on
the REAL interceptor logs: at every statement/expression interceptor invocation IsInFunction() and
CurrentContext() agree with the nesting read off the real tree at the current token, and after
parsing any input - valid or malformed - the context is back at top level."""
from props import c04

LEVEL = c04.LEVEL


def run(ctx):
    c04.run(ctx, "C16")


def replay(ctx, v):
    c04.replay(ctx, v, "C16")
