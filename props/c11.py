"""C11 Parsing is total and its result obeys the error contract.
MC_C11 (TLC): all token strings <= MaxLen over token kinds x {space, newline} layout, parser model in
all four modes obeys the contract (design level), export.  Replay on the real parser in the four
modes under the panic/termination watchdog (+ compile in every configuration when error-free).
Trace_C11 (TLC): P_C11 on the REAL results (verdict), model vs real tree/errors (drift)."""
import glob, json, os
from lib import vlib, render
from props import c10

LEVEL = "model_checking"
MODES = [(False, False), (True, False), (False, True), (True, True)]


def mk(idp, src, tol, smart):
    return dict(id=idp, src=list(src), cfg=dict(tolerant=tol, smart=smart), compile=True)


def polluters(k):
    """Parsers with plugins (custom operators on built-in and dynamic tokens, interceptors) built and
    used in the SAME process before the judged cases: another instance must not change what a
    plain parser does with any input (their own results are not judged here)."""
    mkp = lambda i, src, cfg: dict(id="pollute%d:%d" % (k, i), src=list(src), cfg=cfg, compile=False)
    return [mkp(1, b"5 ! ; a ! b", dict(tolerant=False, smart=False, custom=dict(prefix=[], infix=[], postfix=["NOT"]))),
            mkp(2, b"a ^ b : c", dict(tolerant=True, smart=False, custom=dict(prefix=[], infix=[dict(name="DYN0", level=7), dict(name="COLON", level=3)], postfix=[]))),
            mkp(3, b"@ a * * b", dict(tolerant=False, smart=True, custom=dict(prefix=["DYN1", "MULTIPLY"], infix=[], postfix=["DYN2"]))),
            mkp(4, b"f(a)", dict(tolerant=True, smart=True, schain=["pass"], echain=["reent", "pass"], tchain=1))]


def validate(ctx, cases):
    run = []
    for i, c in enumerate(cases):
        if i % 400 == 0:
            run += polluters(i)
        run.append(c)
    res = ctx.run_harness("parse", run, case_timeout_ms=5000)
    recs, fails = [], []
    for c in cases:
        r = res[c["id"]]
        if r.get("panic") or r.get("hang") or r.get("crash") or "obs" not in r:
            fails.append((c, "total", dict(panic=r.get("panic"), hang=r.get("hang"), crash=r.get("crash"))))
            continue
        o = r["obs"]
        recs.append(dict(id=c["id"], toks=o["toks"], tolerant=c["cfg"]["tolerant"], smart=c["cfg"]["smart"],
                         res=dict(tree=o["tree"], err=o["err"], errors=o["errors"], compile=o.get("compile") or {})))
    byid = {c["id"]: c for c in cases}
    obs = {r["id"]: r for r in recs}
    ctx.drift_ids = getattr(ctx, "drift_ids", [])
    for k in range(0, len(recs), 200000):
        chunk = recs[k:k + 200000]
        t = ctx.tlc_trace("Trace_C11", "Trace_C11.cfg", chunk, timeout=3000, xss="256m")
        if t.tuples("REJECTED") or not t.ok:
            raise vlib.Infra("Trace_C11 did not consume the trace: %s" % (t.error or t.tuples("REJECTED")))
        for tid, clauses in render.parse_fail_lines(t.out):
            fails.append((byid[tid], "+".join(clauses), dict(res=obs[tid]["res"])))
        ctx.drift += len(t.tuples("DRIFT"))
        ctx.drift_ids += [x[1] for x in t.tuples("DRIFT")][:20]
        ctx.cov["traces_validated_against_impl"] += len(chunk)
        if len(recs) > 200000:
            ctx.log("Trace_C11: %d/%d records validated" % (k + len(chunk), len(recs)))
    ctx.cov["evaluations"] += len(cases)
    return fails


EXTREME = [dict(open="(", mid="a", close=")", n=1000000), dict(open="!", mid="a", close="", n=1000000)]


def gen_text(g):
    return (g["open"] * g["n"] + g["mid"] + g["close"] * g["n"]).encode()


def extreme(ctx):
    """The nest_paren / nest_not families of MC_Scale at a depth of 10^6 (rendered here: the instance is
    beyond what TLC can export).  Each runs in a harness process of its own: what is looked for is a
    crash of the whole process (Go's stack limit), which no recover() can turn into an observation."""
    fails = []
    for g in EXTREME:
        c = dict(mk("extreme:%s%d" % (g["open"], g["n"]), gen_text(g), False, False), gen=g, compile=False)
        res = ctx.run_harness("parse", [c], timeout=300, case_timeout_ms=120000)
        r = res[c["id"]]
        ctx.cov["evaluations"] += 1
        if r.get("panic") or r.get("hang") or r.get("crash") or "obs" not in r:
            fails.append((c, "total", dict(panic=r.get("panic"), hang=r.get("hang"), crash=(r.get("crash") or "")[:600])))
    return fails


def run(ctx):
    quick = ctx.tier == "quick"
    cases, nexp = [], 0
    for cfg in (["MC_C11_quick.cfg", "MC_C11_quick2.cfg"] if quick else ["MC_C11_thorough.cfg", "MC_C11_thorough2.cfg"]):
        mc = ctx.tlc("MC_C11", cfg, timeout=3000, xss="256m")
        if not mc.ok:
            raise vlib.Infra("MC_C11 reports an error on the model: %s" % mc.error)
        exported = mc.json_lines()
        ctx.log("MC_C11 %s: %d states, %d token strings exported" % (cfg, mc.distinct, len(exported)))
        for e in exported:
            text = render.kinds_to_text(e["ks"], e["nl"]).encode()
            # all four modes for the short strings, one seeded mode for the rest (quick tier)
            modes = MODES if (len(e["ks"]) <= 2 or not quick) else [ctx.rng.choice(MODES)]
            for (tol, smart) in modes:
                cases.append(mk("mc%d:%d%d" % (nexp, tol, smart), text, tol, smart))
            nexp += 1
    # token-level mutations of valid programs
    for cfg in (["MC_C11M_quick.cfg"] if quick else ["MC_C11M_thorough.cfg", "MC_C11M_thorough2.cfg"]):
        mc = ctx.tlc("MC_C11M", cfg, timeout=3000, xss="256m")
        if not mc.ok:
            raise vlib.Infra("MC_C11M reports an error on the model: %s" % mc.error)
        exported = mc.json_lines()
        ctx.log("MC_C11M %s: %d states, %d mutated programs exported" % (cfg, mc.distinct, len(exported)))
        for e in exported:
            text = render.toks_to_text(e["toks"]).encode()
            for (tol, smart) in ([ctx.rng.choice(MODES)] if quick else [(False, False), ctx.rng.choice(MODES[1:])]):
                cases.append(mk("mu%d:%d%d" % (nexp, tol, smart), text, tol, smart))
            nexp += 1
    # scaled instances: repetitions / nestings beyond the small scope, well-formed and malformed
    from props import scale
    for s in scale.items(ctx, quick, malformed=None):
        for (tol, smart) in [(False, False), ctx.rng.choice(MODES[1:])]:
            cases.append(mk("%s:%d%d" % (s["id"], tol, smart), s["text"].encode(), tol, smart))
    # byte-level inputs: random fragment sequences and mutated fixtures (shared with C10)
    for c in c10.random_inputs(ctx, 400 if quick else 6000, 14 if quick else 30) + c10.fixture_inputs(ctx, 200 if quick else 3000):
        tol, smart = ctx.rng.choice(MODES)
        cases.append(mk("b:" + c["id"], bytes(c["src"]), tol, smart))
    if not quick:
        # coverage-guided exploration of the real parser + printer; the corpus is judged in all four modes
        seeds = c10.FRAGS + [bytes(c["src"]) for c in cases[::max(1, len(cases) // 400)] if len(c["src"]) <= 100]
        for i, b in enumerate(ctx.fuzz("FuzzParse", int(os.environ.get("VERIF_FUZZ_SECONDS", "120")), seeds)):
            for (tol, smart) in MODES:
                cases.append(mk("fz%d:%d%d" % (i, tol, smart), b, tol, smart))
    seen, uniq = set(), []
    for c in cases:
        k = (bytes(c["src"]), c["cfg"]["tolerant"], c["cfg"]["smart"])
        if k not in seen:
            seen.add(k)
            uniq.append(c)
    cases = uniq
    ctx.cov["samples"] = [dict(src=bytes(c["src"]).decode("latin-1"), cfg=c["cfg"]) for c in (cases[5000 % len(cases)], cases[-1], cases[len(cases) // 2])]
    fails = validate(ctx, cases)
    ctx.cov["distinct_nontrivial"] = len({bytes(c["src"]) for c in cases if len(c["src"]) >= 3})
    ctx.cov["failing_inputs"] = len(fails)
    if getattr(ctx, "drift_ids", None):
        ctx.notes.append("drift examples: %s" % ctx.drift_ids[:8])
    fails.sort(key=lambda f: len(f[0]["src"]))
    fails = extreme(ctx) + fails
    done = {}
    for c, clause, detail in fails:
        if done.get(clause, 0) >= 3:
            continue
        tries = getattr(ctx, '_tries', None) or {}
        ctx._tries = tries
        tries[clause] = tries.get(clause, 0) + 1
        if tries[clause] > 12:
            continue    # enough attempts to reproduce this clause
        again = validate(ctx, [dict(c, id="re")])
        if again and again[0][1] == clause:
            if not c.get("gen"):
                done[clause] = done.get(clause, 0) + 1
            if c.get("gen"):    # a generated extreme instance: identified by its generator, not by two megabytes of text
                ctx.violation(dict(gen=c["gen"], cfg=c["cfg"]), clause, dict(detail, crash=(detail.get("crash") or "")[:300]))
            else:
                ctx.violation(dict(input=c["src"], text=bytes(c["src"]).decode("latin-1"), cfg=c["cfg"]), clause, detail)
        else:
            ctx.notes.append("unreproduced failure on %r" % bytes(c["src"]))
    ctx.assumptions += ["error ranges are judged against the token list the REAL lexer returns for the same input",
                        "the no-panic / termination clause is decided by the Go watchdog (recover + 5 s budget per case)"]
    ctx.finish(LEVEL, "token strings: every string <= MaxLen over the cfg's token kinds, space- and newline-separated, x 4 parser modes; every single-token deletion / duplication / swap / replacement / insertion (cfg MutKinds) on every sequence of <= MaxStmts statement templates "
               "(TLC export) + seeded random byte-level fragment sequences and mutated fixtures (+ thorough: the corpus of a coverage-guided fuzzing run on the real parser and printer, in all four modes); non-trivial = distinct inputs of >= 3 bytes",
               exhaustive=True)


def replay(ctx, v):
    c = v["case"]
    if c.get("gen"):
        c = dict(c, input=list(gen_text(c["gen"])))
    f = validate(ctx, [dict(id="replay", src=c["input"], cfg=c["cfg"], compile=not v["case"].get("gen"))])
    print("replay C11:", [x[1] for x in f])
    if f:
        print("VIOLATION property=C11 replay=(same input)")
    os._exit(1 if f else 0)
