"""C03 Printed code parses back to the tree it was printed from.
MC_C03 (TLC): programmatic trees - every parent/child operator pair and side up to Depth with
operands of any precedence, in statement contexts; the printer model (XjsPrinter: Emit + the
XjsWriter machine), the lexer model and the parser model must round-trip each tree in compact and
pretty configurations and re-print it identically (design level); export of the trees with the
model's texts.  Replay: the trees are assembled from the public ast node types, compiled by the
REAL compiler in every configuration, re-parsed and compiled again; Trace_C03 (TLC) judges shape
equality and the fixed point, and compares the real text with the model's (drift).  Trees produced
by the real parser (from the C02 program space) take the same round trip."""
import os
from lib import vlib, render
from props import c02

LEVEL = "model_checking"
MODEL_CFGS = ["compact", "pretty:default:semi", "pretty:tab:nosemi"]
EXTRA_CFGS = ["pretty:4:semi", "pretty:default:nosemi", "pretty:0:semi"]


def validate(ctx, items):
    cases = [dict(id=i["id"], tree=i["tree"], cfgs=MODEL_CFGS + EXTRA_CFGS) for i in items]
    res = ctx.run_harness("printtree", cases, case_timeout_ms=5000)
    recs, fails = [], []
    for i in items:
        r = res[i["id"]]
        if r.get("panic") or r.get("hang") or r.get("crash") or "obs" not in r or r.get("err"):
            fails.append((i, "total", dict(panic=r.get("panic"), hang=r.get("hang"), crash=r.get("crash"), err=r.get("err"))))
            continue
        recs.append(dict(id=i["id"], tree=i["tree"], rts=r["obs"], mouts=i.get("mouts", [])))
    byid = {i["id"]: i for i in items}
    obs = {r["id"]: r for r in recs}
    if recs:
        t = ctx.tlc_trace("Trace_C03", "Trace_C03.cfg", recs)
        if t.tuples("REJECTED") or not t.ok:
            raise vlib.Infra("Trace_C03 did not consume the trace: %s" % (t.error or t.tuples("REJECTED")))
        for tid, clauses in render.parse_fail_lines(t.out):
            o = obs[tid]
            bad = [dict(cfg=x["cfg"], out=bytes(x["out"]).decode("latin-1"), nerr=x["nerr"], err0=x["err0"],
                        out2=bytes(x["out2"]).decode("latin-1")) for x in o["rts"] if x["nerr"] or x["out2"] != x["out"]][:2]
            if not bad:
                bad = [dict(cfg=x["cfg"], out=bytes(x["out"]).decode("latin-1")) for x in o["rts"][:1]]
            fails.append((byid[tid], "+".join(clauses), dict(outputs=bad)))
        d = t.tuples("DRIFT")
        ctx.drift += len(d)
        if d:
            ctx.notes.append("drift examples: %s" % [x[1] for x in d[:5]])
        ctx.cov["traces_validated_against_impl"] += len(recs)
    ctx.cov["evaluations"] += len(cases) * len(MODEL_CFGS + EXTRA_CFGS)
    return fails


def run(ctx):
    quick = ctx.tier == "quick"
    exported, mf = c02.mc_export(ctx, "MC_C03", "MC_C03_quick.cfg" if quick else "MC_C03_thorough.cfg")
    items = []
    for n, e in enumerate(exported):
        items.append(dict(id="m%d" % n, tree=e["tree"], mouts=[o["text"] for o in e["outs"]]))
    from props import scale
    for s in scale.items(ctx, quick, max_nest=130):       # scaled programmatic trees (no model text)
        items.append(dict(id=s["id"], tree=s["want"], mouts=[]))
    ctx.cov["model_failures"] = len(mf)
    ctx.cov["samples"] = [dict(tree=items[k]["tree"], model_compact=bytes(items[k]["mouts"][0]).decode()) for k in (5, 900, 4000)]
    fails = validate(ctx, items)
    ctx.cov["distinct_nontrivial"] = len(items)
    ctx.cov["failing_inputs"] = len(fails)
    fails.sort(key=lambda f: len(str(f[0]["tree"])))
    done = {}
    for it, clause, detail in fails:
        if done.get(clause, 0) >= 4:
            continue
        tries = getattr(ctx, '_tries', None) or {}
        ctx._tries = tries
        tries[clause] = tries.get(clause, 0) + 1
        if tries[clause] > 12:
            continue    # enough attempts to reproduce this clause
        again = validate(ctx, [dict(it, id="re")])
        if again and again[0][1] == clause:
            done[clause] = done.get(clause, 0) + 1
            ctx.violation(dict(tree=it["tree"], text=detail["outputs"][0].get("out")), clause, detail)
        else:
            ctx.notes.append("unreproduced failure on %r" % it["tree"])
    ctx.assumptions += ["operands of ++/-- (prefix and postfix) and assignment targets are identifiers or member accesses (anything else is not JavaScript and is refused by the parser)",
                        "callee / object positions hold call-level-or-tighter expressions, as the statement says"]
    ctx.finish(LEVEL, "programmatic trees: atoms {identifier, number, string, function expression, object literal} wrapped up to Depth times by every "
               "binary operator (either side), unary, postfix, assignment (either side), call/member/index (callee, argument, index), array, "
               "object, function-body, grouping parent, in the cfg's statement contexts, x 6 printer configurations; non-trivial = trees",
               exhaustive=True)


def replay(ctx, v):
    f = validate(ctx, [dict(id="replay", tree=v["case"]["tree"])])
    print("replay C03:", [x[1] for x in f])
    if f:
        print("VIOLATION property=C03 replay=(same input)")
    os._exit(1 if f else 0)
