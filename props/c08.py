"""C08 Source map segments link identical lexemes.
Programs: the decorated program space of MC_C06 (TLC export: multi-line, commented, with blank
lines, two-character operators, multi-line literals), re-indented by seed.  Each is compiled by the
REAL compiler with a source map in compact and pretty configurations; source and generated code
are lexed by the real lexer; Trace_C08 (TLC) decodes every map with the independent Source Map v3
decoder of XjsSourceMap and judges every segment (C08_Failures); the recorded code-writer
operations (verif hook) are replayed on the XjsWriter machine, whose recorded mappings must be the
decoded segments (drift)."""
import os
from lib import vlib, render
from props import c02, c06

LEVEL = "model_checking"
CFGS = ["compact+map", "pretty:default:semi+map", "pretty:tab:nosemi+map", "pretty:4:nosemi+map"]


def reindent(ctx, text, n):
    """seeded extra indentation / spacing of the SOURCE (positions vary, tokens do not)"""
    if n % 5 == 4:
        return text.replace("\n", "\r\n")      # Windows line endings: positions must not change lines
    if n % 3 == 0:
        return text
    lines = text.split("\n")
    inlit = False
    out = []
    for ln in lines:
        pad = "" if inlit else " " * ctx.rng.randint(0, 6) if n % 3 == 1 else ("\t" * ctx.rng.randint(0, 2))
        out.append((pad if ln.strip() else "") + ln)
        if ln.count("`") % 2 == 1:
            inlit = not inlit
    return "\n".join(out)


def validate(ctx, items):
    cases = [dict(id=it["id"], src=list(it["text"].encode("latin-1")), cfgs=CFGS, trace=CFGS) for it in items]
    res = ctx.run_harness("compile", cases, case_timeout_ms=8000)
    recs, fails, byid = [], [], {}
    for it in items:
        r = res[it["id"]]
        if r.get("panic") or r.get("hang") or r.get("crash") or "obs" not in r:
            fails.append((it, "total", dict(panic=r.get("panic"), hang=r.get("hang"), crash=r.get("crash"))))
            continue
        o = r["obs"]
        if o["snerr"] > 0:
            continue
        for x in o["outs"]:
            if x.get("panic") or not x.get("map"):
                fails.append((it, "total", dict(cfg=x["cfg"], panic=x.get("panic"), map=x.get("map"))))
                continue
            rid = it["id"] + "|" + x["cfg"]
            byid[rid] = (it, x)
            recs.append(dict(id=rid, src=list(it["text"].encode("latin-1")),
                             otoks=[dict(ty=k["ty"], lit=list(c06.unsafe(k["lit"])), name=k["lit"], sl=k["sl"], sc=k["sc"]) for k in x["otoks"]],
                             map=x["map"], wcfg=c06.wcfg(x["cfg"]), ops=c06.model_ops(x["ops"]) if x.get("ops") else []))
    if recs:
        t = ctx.tlc_trace("Trace_C08", "Trace_C08.cfg", recs, xss="128m", heap="4g")
        if t.tuples("REJECTED") or not t.ok:
            raise vlib.Infra("Trace_C08 did not consume the trace: %s" % (t.error or t.tuples("REJECTED")))
        for tid, clauses in render.parse_fail_lines(t.out):
            it, x = byid[tid]
            fails.append((it, "+".join(clauses), dict(cfg=x["cfg"], code=bytes(x["code"]).decode("latin-1"), map=x["map"])))
        d = t.tuples("DRIFT")
        ctx.drift += len(d)
        if d:
            ctx.notes.append("drift examples: %s" % [x[1] for x in d[:5]])
        ctx.cov["traces_validated_against_impl"] += len(recs)
    ctx.cov["evaluations"] += len(cases) * len(CFGS)
    return fails


def run(ctx):
    quick = ctx.tier == "quick"
    items, nund, ndec = c06.build_items(ctx, quick)
    cap = 2500 if quick else 40000
    items = items[:nund] + items[nund:nund + cap]
    for n, it in enumerate(items):
        it["text"] = reindent(ctx, it["text"], n)
        if n % 7 == 5:      # non-ASCII text inside string literals: columns are bytes on both sides
            it["text"] = it["text"].replace('"s"', '"s\xc3\xa9\xe2\x82\xac"').replace("`r`", "`r\xc3\xa9`")
    from props import scale
    for s in scale.items(ctx, quick, max_nest=17 if quick else 40, max_n=17 if quick else 130):      # long lines (column deltas >= 512), many lines, many names
        items.append(dict(id=s["id"], text=s["text"]))
    ctx.cov["samples"] = [dict(text=i["text"]) for i in (items[1], items[nund + 3], items[-1])]
    fails = validate(ctx, items)
    ctx.cov["distinct_nontrivial"] = len(items)
    ctx.cov["failing_inputs"] = len(fails)
    fails.sort(key=lambda f: len(f[0]["text"]))
    done = {}
    for it, clause, detail in fails:
        key = (clause, detail.get("cfg"))
        if done.get(key, 0) >= 2:
            continue
        tries = getattr(ctx, '_tries', None) or {}
        ctx._tries = tries
        tries[key] = tries.get(key, 0) + 1
        if tries[key] > 12:
            continue    # enough attempts to reproduce this clause
        again = validate(ctx, [dict(it, id="re")])
        if any(a[1] == clause and a[2].get("cfg") == detail.get("cfg") for a in again):
            done[key] = done.get(key, 0) + 1
            ctx.violation(dict(input=list(it["text"].encode("latin-1")), text=it["text"], cfg=detail.get("cfg")), clause, detail)
        else:
            ctx.notes.append("unreproduced failure on %r" % it["text"])
    ctx.assumptions += ["columns are byte offsets on both sides (the unit of token.Position and of the mapper)",
                        "token start positions of source and generated code are those of the real lexer (C10)"]
    ctx.finish(LEVEL, "decorated programs of MC_C06 (undecorated + seeded sample of the decorated ones), source re-indented by seed, x 4 configurations "
               "with source map (compact, pretty 2 spaces, pretty tab without semicolons, pretty 4 spaces without semicolons); every segment of "
               "every map judged; non-trivial = distinct source texts", exhaustive=False)


def replay(ctx, v):
    c = v["case"]
    f = validate(ctx, [dict(id="replay", text=c["text"])])
    print("replay C08:", [(x[1], x[2].get("cfg")) for x in f])
    if f:
        print("VIOLATION property=C08 replay=(same input)")
    os._exit(1 if f else 0)
