"""C05 Custom operators and token types integrate consistently.
Part A (grouping): MC_C05A (TLC) enumerates every operator string with <= MaxOps operators mixing
built-in operators with a registered infix operator of each level 1..13 (and a second one), a
registered prefix and a registered postfix operator; the parser model configured with them must
group by level (WFX, a declarative operator-precedence well-formedness on the documented level
scale) - design level; each string is replayed on a REAL parser built with the same registrations
and Trace_C05 judges the real tree (C05A_Failures) and compares it with the model.
Part B (registration histories): MC_C05B (TLC) explores every history of <= MaxCalls
RegisterTokenType / Register{Prefix,Infix,Postfix}Operator calls on the XjsBuilder machine
(invariants: ids fresh, injective, stable; a refusal changes nothing); every maximal history is
replayed on a real builder pair, a parser being built and probed after every call, and Trace_C05
judges the REAL replies (C05B_Failures) and 'a refused registration leaves the parser unchanged'."""
import os
from lib import vlib, render
from props import c02

LEVEL = "model_checking"
SPELL = dict(DYN0="^", DYN1="@", DYN2="#", DYN3="~")
TOKSPELL = dict(DYN0="^", DYN1="@", DYN2="#", NOT="!", PLUS="+", INCREMENT="++")
PROBES, PIDX = [], {}
for _t, _s in TOKSPELL.items():
    for _role, _src in (("prefix", "%s a"), ("postfix", "a %s"), ("infix", "a %s b")):
        PIDX["%s:%s" % (_role, _t)] = len(PROBES) + 1          # 1-based, for TLA+
        PROBES.append((_src % _s).encode())
PROBES += [b"a ^ b * c", b"a + b ^ c", b"@ a + b", b"a ( b )", b"( a )", b"a + b", b"a ++ b"]


def text_of(toks):
    out = []
    for k in toks:
        if k["ty"] == "EOF":
            continue
        out.append(("\n" if k.get("nl") else (" " if out else "")) + (SPELL.get(k["ty"]) or render.spell(k)))
    return "".join(out)


def validate_a(ctx, items):
    cases = []
    for it in items:
        cfg = dict(tolerant=False, smart=False,
                   custom=dict(prefix=["DYN1"], infix=[dict(name="DYN0", level=it["L"]), dict(name="DYN3", level=it["L2"])], postfix=["DYN2", "DYN1"]))
        # registration order in the harness: names are registered in the order prefix, infix, postfix
        cases.append(dict(id=it["id"], src=list(it["text"].encode()), cfg=cfg, compile=False))
    res = ctx.run_harness("parse", cases, case_timeout_ms=5000)
    recs, fails = [], []
    for it in items:
        r = res[it["id"]]
        if r.get("panic") or r.get("hang") or r.get("crash") or "obs" not in r:
            fails.append((it, "total", dict(panic=r.get("panic"), hang=r.get("hang"), crash=r.get("crash"))))
            continue
        o = r["obs"]
        recs.append(dict(part="A", id=it["id"], cl=dict(DYN0=it["L"], DYN3=it["L2"]), lowest=it["lowest"],
                         toks=[dict(ty=k["ty"], lit=k["lit"], nl=k["nl"], nonl=False, opt=False) for k in o["toks"]],
                         res=dict(tree=o["tree"], nerr=len(o["errors"]), err=o["err"])))
    return recs, fails, len(cases)


def validate_b(ctx, items):
    cases = [dict(id=it["id"], h=[dict(op=e["op"], a=e["a"], l=e["l"]) for e in it["h"]], probes=[list(p) for p in PROBES]) for it in items]
    res = ctx.run_harness("builder", cases, case_timeout_ms=10000)
    recs, fails = [], []
    for it in items:
        r = res[it["id"]]
        if r.get("panic") or r.get("hang") or r.get("crash") or "obs" not in r or r.get("err"):
            fails.append((it, "total", dict(panic=r.get("panic"), hang=r.get("hang"), crash=r.get("crash"), err=r.get("err"))))
            continue
        o = r["obs"]
        h = [dict(op=e["op"], a=e["a"], l=e["l"], res=rep) for e, rep in zip(it["h"], o["replies"])]
        recs.append(dict(part="B", id=it["id"], h=h, builtinIds=o["builtinIds"], probes=o["probes"], pidx=PIDX,
                         ftoks=[[dict(ty=k["ty"], lit=k["lit"], nl=k["nl"]) for k in ts] for ts in o["ftoks"]],
                         ftrees=o["ftrees"], fnerr=o["fnerr"]))
    return recs, fails, len(cases) * (len(PROBES) + 1)


def judge(ctx, recs, byid):
    fails = []
    if recs:
        t = ctx.tlc_trace("Trace_C05", "Trace_C05.cfg", recs)
        if t.tuples("REJECTED") or not t.ok:
            raise vlib.Infra("Trace_C05 did not consume the trace: %s" % (t.error or t.tuples("REJECTED")))
        obs = {r["id"]: r for r in recs}
        for tid, clauses in render.parse_fail_lines(t.out):
            o = obs[tid]
            fails.append((byid[tid], "+".join(clauses), dict(res=o.get("res"), h=o.get("h"))))
        d = t.tuples("DRIFT")
        ctx.drift += len(d)
        if d:
            ctx.notes.append("drift examples: %s" % [x[1] for x in d[:5]])
        ctx.cov["traces_validated_against_impl"] += len(recs)
    return fails


def validate(ctx, items):
    a = [i for i in items if i["part"] == "A"]
    b = [i for i in items if i["part"] == "B"]
    ra, fa, na = validate_a(ctx, a) if a else ([], [], 0)
    rb, fb, nb = validate_b(ctx, b) if b else ([], [], 0)
    ctx.cov["evaluations"] += na + nb
    return fa + fb + judge(ctx, ra + rb, {i["id"]: i for i in items})


def run(ctx):
    quick = ctx.tier == "quick"
    ea, mfa = c02.mc_export(ctx, "MC_C05A", "MC_C05A_quick.cfg" if quick else "MC_C05A_thorough.cfg")
    eb, _ = c02.mc_export(ctx, "MC_C05B", "MC_C05B_quick.cfg" if quick else "MC_C05B_thorough.cfg")
    items = []
    for n, e in enumerate(ea):
        items.append(dict(part="A", id="a%d" % n, text=text_of(e["toks"]), L=e["L"], L2=e["L2"], lowest=e["lowest"]))
    for n, e in enumerate(eb):
        items.append(dict(part="B", id="b%d" % n, h=e["h"]))
    ctx.cov["operator_strings"] = len(ea)
    ctx.cov["registration_histories"] = len(eb)
    ctx.cov["model_failures"] = len(mfa)
    ctx.cov["samples"] = [dict(text=items[5]["text"], L=items[5]["L"]), dict(text=items[len(ea) // 2]["text"], L=items[len(ea) // 2]["L"]),
                          dict(history=[(e["op"], e["a"]) for e in items[-1]["h"]])]
    fails = validate(ctx, items)
    ctx.cov["distinct_nontrivial"] = len(items)
    ctx.cov["failing_inputs"] = len(fails)
    fails.sort(key=lambda f: len(f[0].get("text", "")) + len(f[0].get("h", [])))
    done = {}
    for it, clause, detail in fails:
        if done.get(clause, 0) >= 3:
            continue
        tries = getattr(ctx, '_tries', None) or {}
        ctx._tries = tries
        tries[clause] = tries.get(clause, 0) + 1
        if tries[clause] > 12:
            continue    # enough attempts to reproduce this clause
        how, pre = ctx.reproduce(validate, items, it, clause, same=lambda a, b: a["part"] == b["part"])
        if how:
            done[clause] = done.get(clause, 0) + 1
            case = {k: v for k, v in it.items() if k != "id"}
            if pre:     # fails only behind other builders used earlier in the same process
                case["after"] = [{k: v for k, v in x.items() if k != "id"} for x in pre]
                detail = dict(detail or {}, reproduced="only after %d earlier builder histories in the same process" % len(pre))
            ctx.violation(case, clause, detail)
        else:
            ctx.notes.append("unreproduced failure on %r" % (it.get("text") or it.get("h")))
    ctx.assumptions += ["levels are the documented constants of package parser (LOWEST=1 .. MEMBER=12); an infix operator of level 1 can never be consumed and must be reported as a syntax error",
                        "a left-associative registered operator of the assignment level next to `=` has no defined grouping and is not generated",
                        "'already has that role' is judged with the role table of the built-in grammar (prefix: tokens that start an expression; infix: tokens with a binding power; postfix: ++ --)"]
    ctx.finish(LEVEL, "part A: every operator string with <= MaxOps operators containing a registered operator, for every level 1..13 of the registered "
               "infix operator (and a second one at a neighbouring level); part B: every maximal registration history of MaxCalls calls over the cfg's "
               "names / built-in tokens / levels, a parser built and probed with %d inputs after every call; non-trivial = strings + histories" % len(PROBES),
               exhaustive=True)


def replay(ctx, v):
    c = dict(v["case"], id="replay")
    pre = [dict(x, id="pre%d" % n) for n, x in enumerate(c.pop("after", []))]
    f = [x for x in validate(ctx, pre + [c]) if x[0].get("id") == "replay"]
    print("replay C05:", [x[1] for x in f])
    if f:
        print("VIOLATION property=C05 replay=(same input)")
    os._exit(1 if f else 0)
