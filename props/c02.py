"""C02 The subset is parsed exactly as JavaScript parses it.
MC_C02 (TLC): trees (every operator pair x side up to depth D in statement contexts; every sequence
of <= n statement templates) rendered by the independent unparser of XjsGrammar in many layouts
(redundant parentheses, separators `;` / line break / both, line breaks in every permitted gap); the
parser model must return the tree (design level); export of (token list, tree).  The exported
token lists are spelled out as text in several gap spellings (LF, CRLF, comment, blank line, tight,
wide, single quotes), parsed by the REAL parser, and Trace_C02 (TLC) judges the real tree."""
import json, os
from lib import vlib, render

LEVEL = "model_checking"
STYLES = ["plain", "crlf", "comment", "blank", "tight", "wide", "squote", "mixed"]


def validate(ctx, cases, want):
    res = ctx.run_harness("parse", cases, case_timeout_ms=5000)
    recs, fails = [], []
    for c in cases:
        r = res[c["id"]]
        if r.get("panic") or r.get("hang") or r.get("crash") or "obs" not in r:
            fails.append((c, "total", dict(panic=r.get("panic"), hang=r.get("hang"), crash=r.get("crash"))))
            continue
        o = r["obs"]
        recs.append(dict(id=c["id"], toks=[dict(ty=k["ty"], lit=k["lit"], nl=k["nl"]) for k in o["toks"]], res=dict(tree=o["tree"], err=o["err"], errors=o["errors"]),
                         want=want[c["id"]]))
    byid = {c["id"]: c for c in cases}
    obs = {r["id"]: r for r in recs}
    ctx.log("real parser ran on %d cases" % len(cases))
    if recs:
        t = ctx.tlc_trace("Trace_C02", "Trace_C02.cfg", recs)
        if t.tuples("REJECTED") or not t.ok:
            raise vlib.Infra("Trace_C02 did not consume the trace: %s" % (t.error or t.tuples("REJECTED")))
        for tid, clauses in render.parse_fail_lines(t.out):
            fails.append((byid[tid], "+".join(clauses), dict(res=obs[tid]["res"], want=obs[tid]["want"])))
        ctx.cov["traces_validated_against_impl"] += len(recs)
    ctx.cov["evaluations"] += len(cases)
    return fails


def oracle_check(ctx, cases, want):
    """Oracle validator of the reference side (never looks at xjs): the ESTree that node's bundled
    acorn assigns to each rendered text, normalised to the spec's tree shape, must be the tree the
    text was rendered from.  A disagreement means XjsGrammar's reference grammar / unparser is wrong:
    infrastructure failure, no verdict."""
    ref = ctx.ref_parse([dict(id=c["id"], text=bytes(c["src"]).decode(), tree=True, allowReturn=True) for c in cases])
    bad, skipped = [], 0
    for c in cases:
        r = ref[c["id"]]
        if r.get("skip") or not r.get("acorn"):
            skipped += 1          # e.g. a name declared twice by two templates: an early error, not a grammar matter
            continue
        if r["tree"] != want[c["id"]]:
            bad.append((bytes(c["src"]).decode(), r["tree"], want[c["id"]]))
    ctx.cov["oracle_acorn_agreed"] = len(cases) - skipped - len(bad)
    ctx.cov["oracle_acorn_rejected_text"] = skipped
    if bad:
        raise vlib.Infra("the reference grammar of XjsGrammar disagrees with acorn on %d of %d rendered texts, e.g. %r: acorn %s vs reference %s"
                         % (len(bad), len(cases), bad[0][0], json.dumps(bad[0][1])[:300], json.dumps(bad[0][2])[:300]))


def mc_export(ctx, module, cfg, timeout=3000):
    mc = ctx.tlc(module, cfg, timeout=timeout, xss="64m", heap="12g")
    if not mc.ok:
        raise vlib.Infra("%s reports an error: %s" % (module, mc.error))
    exported = mc.json_lines()
    mf = mc.tuples("MODELFAIL")
    ctx.log("%s %s: %d states, %d cases exported, %d model failures" % (module, cfg, mc.distinct, len(exported), len(mf)))
    return exported, mf


def run(ctx):
    quick = ctx.tier == "quick"
    exported, mf = mc_export(ctx, "MC_C02", "MC_C02_quick.cfg" if quick else "MC_C02_thorough.cfg")
    ctx.modelfails = len(mf)
    if quick and len(exported) > 40000:      # every rendering was checked on the model; a seeded sample is parsed by the real parser
        ctx.rng.shuffle(exported)
        exported = exported[:40000]
    cases, want, seen = [], {}, set()
    per = 1 if quick else 2
    for n, e in enumerate(exported):
        styles = [STYLES[n % len(STYLES)]] if per == 1 else [STYLES[n % len(STYLES)], ctx.rng.choice(STYLES)]
        for s in set(styles):
            text = render.toks_to_text(e["toks"], ctx.rng, s)
            if text in seen:
                continue
            seen.add(text)
            cid = "m%d:%s" % (n, s)
            cases.append(dict(id=cid, src=list(text.encode()), cfg=dict(tolerant=False, smart=False), compile=False))
            want[cid] = e["want"]
    from props import scale
    for s in scale.items(ctx, quick):
        cases.append(dict(id=s["id"], src=list(s["text"].encode()), cfg=dict(tolerant=False, smart=False), compile=False))
        want[s["id"]] = s["want"]
    ctx.cov["samples"] = [dict(text=bytes(c["src"]).decode()[:300], want=str(want[c["id"]])[:300]) for c in (cases[7 % len(cases)], cases[len(cases) // 2], cases[-1])]
    oracle_check(ctx, cases, want)
    fails = validate(ctx, cases, want)
    ctx.cov["distinct_nontrivial"] = len(cases)
    ctx.cov["failing_inputs"] = len(fails)
    ctx.cov["model_failures"] = len(mf)
    if mf:
        ctx.notes.append("the parser MODEL disagrees with the reference grammar on %d layouts (candidates only; the verdict comes from the real parser)" % len(mf))
    fails.sort(key=lambda f: len(f[0]["src"]))
    done = {}
    for c, clause, detail in fails:
        if done.get(clause, 0) >= 4:
            continue
        tries = getattr(ctx, '_tries', None) or {}
        ctx._tries = tries
        tries[clause] = tries.get(clause, 0) + 1
        if tries[clause] > 12:
            continue    # enough attempts to reproduce this clause
        again = validate(ctx, [dict(c, id="re")], {"re": want[c["id"]]})
        if again and again[0][1] == clause:
            done[clause] = done.get(clause, 0) + 1
            ctx.violation(dict(input=c["src"], text=bytes(c["src"]).decode("latin-1"), want=want[c["id"]]), clause, detail)
        else:
            ctx.notes.append("unreproduced failure on %r" % bytes(c["src"]))
    ctx.assumptions += ["the reference grammar (levels, associativity, ASI, restricted productions) of XjsGrammar is ECMAScript's for the subset",
                        "'subset' excludes statements that start with a token continuing the previous line when only a line break separates them"]
    ctx.finish(LEVEL, "trees: every parent/child operator pair x side up to the cfg's Depth in the cfg's statement contexts, every sequence of "
               "<= MaxStmts statement templates (top level and function body) x {minimal, redundant parentheses} x separators {;, line break, both} "
               "x line breaks {none, all permitted gaps, each single gap for small trees}; non-trivial = distinct rendered texts", exhaustive=True)


def replay(ctx, v):
    c = v["case"]
    f = validate(ctx, [dict(id="replay", src=c["input"], cfg=dict(tolerant=False, smart=False), compile=False)], {"replay": c["want"]})
    print("replay C02:", [x[1] for x in f])
    if f:
        print("VIOLATION property=C02 replay=(same input)")
    os._exit(1 if f else 0)
