"""C14 Instances are isolated and results deterministic, also under concurrency.
MC_C14 (TLC): the package-level state of xjs is the variable G, every instance lives in loc[job];
a step of a job (one public API call, or one token pulled inside ParseProgram) may read G and write
only its own loc[job] (action properties GlobalsNeverChange, NonInterference checked on every
interleaving); TLC exports every interleaving of the first MaxSlots steps of every pair (and of
sampled triples) of a pool of 8 jobs (plain, postfix on a built-in token, custom infix levels,
interceptors, mode switches, repeated builds), and every order of <= MaxOrder compilations.
Replay: each schedule is executed deterministically on REAL instances (one goroutine per job, a
scheduler granting one turn at a time; the token interceptor is the gate inside ParseProgram); every
job also runs alone before and after.  Orders are replayed on one shared tree (deep snapshot before
and after).  The job pool also runs free on 16 goroutines in a binary built with -race.
Trace_C14 (TLC) judges the recorded results."""
import json, os, subprocess
from lib import vlib, render
from props import c02, c06

LEVEL = "model_checking"


def slim_res(r):
    return dict(replies=r["replies"], trees=r["trees"], outs=r["outs"], panic=r.get("panic", ""), refs=r.get("refs") or [])


def validate(ctx, items):
    sched = [i for i in items if i["part"] == "sched"]
    orders = [i for i in items if i["part"] == "orders"]
    recs, fails, byid = [], [], {}
    if sched:
        cases = [dict(id=i["id"], jobs=[dict(src=list(j["src"].encode()), ops=j["ops"]) for j in i["jobs"]], order=i["order"]) for i in sched]
        res = ctx.run_harness("schedule", cases, case_timeout_ms=10000)
        for i in sched:
            r = res[i["id"]]
            if r.get("panic") or r.get("hang") or r.get("crash") or "obs" not in r:
                fails.append((i, "job_hangs_or_panics_next_to_other_instances", dict(panic=r.get("panic"), hang=r.get("hang"), crash=(r.get("crash") or "")[-300:])))
                continue
            o = r["obs"]
            recs.append(dict(part="sched", id=i["id"], jobs=[dict(ops=j["ops"]) for j in i["jobs"]],
                             solo=[slim_res(x) for x in o["solo"]], inter=[slim_res(x) for x in o["inter"]], after=[slim_res(x) for x in o["after"]]))
            byid[i["id"]] = i
        ctx.cov["evaluations"] += 3 * sum(len(i["jobs"]) for i in sched)
    if orders:
        cases = [dict(id=i["id"], src=list(i["text"].encode("latin-1")), order=i["order"]) for i in orders]
        res = ctx.run_harness("compileorders", cases, case_timeout_ms=10000)
        for i in orders:
            r = res[i["id"]]
            if r.get("panic") or r.get("hang") or r.get("crash") or "obs" not in r:
                fails.append((i, "total", dict(panic=r.get("panic"), hang=r.get("hang"))))
                continue
            o = r["obs"]
            sp = lambda s: dict(code=s.split("\x00")[0], rest=s.split("\x00", 1)[1] if "\x00" in s else "")
            recs.append(dict(part="orders", id=i["id"], order=i["order"], shared=[sp(s) for s in o["shared"]], fresh=[sp(s) for s in o["fresh"]],
                             tree_unchanged=o["tree_unchanged"], debug=o["debug"], compact=o["compact"], stmts=o["stmts"], stmts_compact=o["stmts_compact"]))
            byid[i["id"]] = i
        ctx.cov["evaluations"] += sum(len(i["order"]) for i in orders) * 2
    if recs:
        t = ctx.tlc_trace("Trace_C14", "Trace_C14.cfg", recs)
        if t.tuples("REJECTED") or not t.ok:
            raise vlib.Infra("Trace_C14 did not consume the trace: %s" % (t.error or t.tuples("REJECTED")))
        obs = {r["id"]: r for r in recs}
        for tid, clauses in render.parse_fail_lines(t.out):
            o = obs[tid]
            if o["part"] == "sched":
                d = [dict(job=k, solo=o["solo"][k], inter=o["inter"][k], after=o["after"][k]) for k in range(len(o["solo"]))
                     if not (o["solo"][k] == o["inter"][k] == o["after"][k])][:1] or [dict(solo=o["solo"])]
            else:
                d = [dict(order=o["order"], shared=o["shared"], fresh=o["fresh"], tree_unchanged=o["tree_unchanged"], debug=o["debug"], compact=o["compact"])]
            fails.append((byid[tid], "+".join(clauses), d[0]))
        ctx.cov["traces_validated_against_impl"] += len(recs)
    return fails


def race_run(ctx, jobs, rounds):
    """the job pool free-running on 16 goroutines under the race detector"""
    binary = ctx.build_race_harness()
    case = dict(id="race", jobs=[dict(src=list(j["src"].encode()), ops=j["ops"]) for j in jobs], rounds=rounds)
    p = subprocess.run([binary, "racejobs"], input=json.dumps(case) + "\n", capture_output=True, text=True, timeout=1200,
                       env=dict(os.environ, XJSH_CASE_TIMEOUT_MS="600000", GORACE="halt_on_error=0"))
    races = p.stderr.count("WARNING: DATA RACE")
    diffs, runs = [], 0
    for line in p.stdout.split("\n"):
        if line.strip():
            r = json.loads(line)
            if "obs" in r:
                diffs, runs = r["obs"]["diffs"], r["obs"]["runs"]
            elif r.get("panic") or r.get("hang"):
                diffs = ["panic/hang: %s" % (r.get("panic") or "hang")]
    if p.returncode not in (0, 66) and not races and not diffs:
        raise vlib.Infra("race harness failed rc=%s: %s" % (p.returncode, p.stderr[-800:]))
    first = ""
    if races:
        k = p.stderr.find("WARNING: DATA RACE")
        first = p.stderr[k:k + 1500]
    return races, diffs, runs, first


def run(ctx):
    quick = ctx.tier == "quick"
    exported, _ = c02.mc_export(ctx, "MC_C14", "MC_C14_quick.cfg" if quick else "MC_C14_thorough.cfg")
    sched = [e for e in exported if e["part"] == "sched"]
    orders = [e for e in exported if e["part"] == "orders"]
    pairs = [e for e in sched if len(e["jobs"]) == 2]
    triples = [e for e in sched if len(e["jobs"]) > 2]
    ctx.rng.shuffle(triples)
    sched = pairs + triples[:1500 if quick else 30000]
    items = [dict(part="sched", id="s%d" % n, jobs=e["jobs"], order=e["order"]) for n, e in enumerate(sched)]
    # compilation orders on decorated programs of MC_C06 (comments, blank lines inside blocks, ...)
    c06items, nund, _ = c06.build_items(ctx, True)
    texts = [i["text"] for i in c06items[nund:]]
    ctx.rng.shuffle(texts)
    # programs whose output begins and ends with sign operators / comments ending in them: state that a
    # writer carried over from one compilation to the next would show
    texts = ["--a\nb--", "-a\nb++", "++a\na--", "--a // x-\n", "a-- // +\n++b", "-a\n// <\n", "!a\nb--"] + texts
    for n, e in enumerate(orders):
        for k in range(2 if quick else 8):
            items.append(dict(part="orders", id="o%d:%d" % (n, k), order=e["order"], text=texts[(n * 8 + k) % len(texts)]))
        if len(e["order"]) == 2:      # two different programs through two compilations in a row (same process)
            items.append(dict(part="orders", id="o%d:x" % n, order=e["order"], text=texts[n % 7]))
    ctx.cov["schedules"] = len(sched)
    ctx.cov["compile_orders"] = len(orders)
    ctx.cov["samples"] = [dict(jobs=[j["ops"] for j in items[5]["jobs"]], order=items[5]["order"]),
                          dict(order=items[-1]["order"], text=items[-1]["text"])]
    fails = validate(ctx, items)
    jobs = []
    for e in pairs:
        for j in e["jobs"]:
            if j not in jobs:
                jobs.append(j)
    races, diffs, runs, first = race_run(ctx, jobs, 40 if quick else 400)
    ctx.cov["race_detector_runs"] = runs
    ctx.cov["data_races"] = races
    ctx.cov["evaluations"] += runs
    ctx.cov["distinct_nontrivial"] = len(items)
    ctx.cov["failing_inputs"] = len(fails) + races + len(diffs)
    if races:
        ctx.violation(dict(jobs=[j["ops"] for j in jobs], mode="16 goroutines, -race"), "data_race_between_instances", dict(reports=races, first=first))
    if diffs:
        ctx.violation(dict(jobs=[j["ops"] for j in jobs], mode="16 goroutines, -race"), "result_differs_under_concurrency", dict(diffs=diffs[:10]))
    fails.sort(key=lambda f: len(json.dumps(f[0])))
    done = {}
    for it, clause, detail in fails:
        if done.get(clause, 0) >= 3:
            continue
        tries = getattr(ctx, '_tries', None) or {}
        ctx._tries = tries
        tries[clause] = tries.get(clause, 0) + 1
        if tries[clause] > 12:
            continue    # enough attempts to reproduce this clause
        again = validate(ctx, [dict(it, id="re")])
        if again and again[0][1] == clause:
            done[clause] = done.get(clause, 0) + 1
            ctx.violation({k: v for k, v in it.items() if k != "id"}, clause, detail)
        else:
            ctx.notes.append("unreproduced failure on %r" % (it.get("order"),))
    ctx.assumptions += ["data races are a memory-model notion the TLA+ model does not express: that half of the statement is decided by the Go race detector on the job pool",
                        "isolation is judged real-vs-real: a job's result interleaved with / after other jobs against its result alone"]
    ctx.finish(LEVEL, "schedules: every interleaving of the first MaxSlots steps (API calls and tokens) of every ordered pair of the 8-job pool + sampled "
               "interleavings of job triples; orders: every sequence of <= MaxOrder configurations out of 6 on one shared tree, on decorated programs; "
               "16-goroutine free run under -race; non-trivial = schedules + (order, program) pairs", exhaustive=False)


def replay(ctx, v):
    c = dict(v["case"], id="replay")
    if "part" not in c:
        races, diffs, runs, first = race_run(ctx, [dict(src="a", ops=o) for o in c.get("jobs", [])], 10)
        print("replay C14 (race):", races, diffs)
        os._exit(1 if races or diffs else 0)
    f = validate(ctx, [c])
    print("replay C14:", [x[1] for x in f])
    if f:
        print("VIOLATION property=C14 replay=(same input)")
    os._exit(1 if f else 0)
