"""C15 The pretty printer keeps statement-level comments; compact output has none.
Same machinery as C06 (MC_C06 enumerates the decorated programs; the real compiler's outputs are
lexed with trivia); here the verdict is C15_Failures of XjsLayout: in every pretty configuration the
non-`;` tokens are those of the source, every statement-level anchor (first token of a statement,
closing brace of a block / function body, end of input - read off the real tree) carries the same
comments in the same order and the same blank-line marks, compact output carries no comment, and
the program with its comments removed compiles to the same compact code and pretty tokens."""
from props import c06

LEVEL = c06.LEVEL


def run(ctx):
    c06.run(ctx, "C15")


def replay(ctx, v):
    c06.replay(ctx, v, "C15")
