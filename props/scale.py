"""Scaled instances (MC_Scale): the constructs of the program space repeated / nested n times for
n beyond the thresholds small-scope enumeration reaches (8, 16, 32, 100, 256, 512, 1000).  Shared
by the checks whose property quantifies over ALL programs; every instance comes with the tree it
was rendered from."""
from lib import vlib, render


def items(ctx, quick, families=None):
    mc = ctx.tlc("MC_Scale", "MC_Scale_quick.cfg" if quick else "MC_Scale_thorough.cfg", timeout=3000, xss="1g")
    if not mc.ok:
        raise vlib.Infra("MC_Scale reports an error: %s" % mc.error)
    if mc.tuples("MODELFAIL"):
        ctx.notes.append("MC_Scale: the parser model disagrees with the rendered tree on %s" % mc.tuples("MODELFAIL")[:3])
    out = []
    for e in mc.json_lines():
        if families and e["fam"] not in families:
            continue
        text = render.toks_to_text(e["toks"], ctx.rng, "plain")
        out.append(dict(id="scale:%s:%d:%s" % (e["fam"], e["n"], "nl" if "\n" in text else "sp"), fam=e["fam"], n=e["n"], text=text,
                        want=e["want"], toks=e["toks"]))
    ctx.log("MC_Scale: %d scaled instances" % len(out))
    return out
