"""Scaled instances (MC_Scale): the constructs of the program space repeated / nested n times for
n beyond the thresholds small-scope enumeration reaches (8, 16, 32, 100, 256, 512, 1000).  Shared
by the checks whose property quantifies over ALL programs; every instance comes with the tree it
was rendered from."""
from lib import vlib, render


def _export(ctx, cfg):
    """MC_Scale depends on the specification only (not on /repo): its export is cached under
    /verif/.cache, keyed by the hash of the spec files involved."""
    import hashlib, json, os
    h = hashlib.sha1()
    for f in ("MC_Scale.tla", cfg, "XjsPrograms.tla", "XjsGrammar.tla", "XjsParser.tla"):
        h.update(open(os.path.join(vlib.SPEC, f), "rb").read())
    path = os.path.join(vlib.VERIF, ".cache", "scale-%s.json" % h.hexdigest()[:16])
    if os.path.exists(path):
        try:
            return json.load(open(path))
        except Exception:
            pass
    mc = ctx.tlc("MC_Scale", cfg, timeout=3000, xss="1g")
    if not mc.ok:
        raise vlib.Infra("MC_Scale reports an error: %s" % mc.error)
    if mc.tuples("MODELFAIL"):
        raise vlib.Infra("MC_Scale: the parser model disagrees with the rendered tree on %s" % mc.tuples("MODELFAIL")[:3])
    exported = mc.json_lines()
    os.makedirs(os.path.dirname(path), exist_ok=True)
    tmp = path + ".%d" % os.getpid()
    json.dump(exported, open(tmp, "w"))
    os.replace(tmp, path)
    return exported


def items(ctx, quick, families=None, malformed=False, max_nest=None, max_n=None):
    exported = _export(ctx, "MC_Scale_quick.cfg" if quick else "MC_Scale_thorough.cfg")
    out = []
    for e in exported:
        if families and e["fam"] not in families:
            continue
        if max_nest is not None and (e["fam"].startswith("nest_") or e["fam"] in ("chain_plus", "chain_mem", "chain_call")) and e["n"] > max_nest:
            continue
        if max_n is not None and e["n"] > max_n and not (e["fam"] == "long_str" and e["n"] <= 600):
            continue
        bad = e["want"].get("k") == "nil"
        if bad != malformed and not (malformed is None):
            continue
        text = render.toks_to_text(e["toks"], ctx.rng, "plain")
        out.append(dict(id="scale:%s:%d:%s" % (e["fam"], e["n"], "nl" if "\n" in text else "sp"), fam=e["fam"], n=e["n"], text=text,
                        want=e["want"], toks=e["toks"]))
    ctx.log("MC_Scale: %d scaled instances" % len(out))
    return out
