"""C04 Plugin interception is transparent, ordered and re-entrant  (and the machinery of C16).
MC_C04 (TLC): interceptor installation histories (statement, pass-through expression, re-entrant
expression) x a corpus of programs (statement templates, operator spines, programs nested through
function declarations / function expressions in arguments, object values, array elements,
conditions / blocks); the parser model is run with and without the interceptors and its event log
must satisfy the declarative predicates C04_Failures and C16_Failures (design level); export.
Replay: each program is parsed by the REAL parser without interceptors and with the exported
history - extended on this side with token interceptors and plugin-style installation, chosen by
seed - plus malformed token strings (exported by MC_C11); the real event logs are the traces that
Trace_C04 (TLC) judges (verdict) and compares with the model's log (drift)."""
import os
from lib import vlib, render
from props import c02

LEVEL = "model_checking"
WHICH = "C04"


def decorate(ctx, inst, n):
    """add 0..2 token interceptors at seeded positions and install some entries as plugins"""
    r = ctx.rng
    inst = list(inst)
    for _ in range(n % 3):
        inst.insert(r.randint(0, len(inst)), "t")
    if n % 4 == 1:   # a Build() somewhere inside the installation history
        inst.insert(r.randint(0, len(inst)), "b")
    if n % 6 == 3:   # an interceptor that runs ANOTHER parser of the same builder before every statement
        inst.insert(r.randint(0, len(inst)), "n")
    if n % 5 == 2:   # an interceptor (innermost) that takes over `while` and parses the body with ParseStatement()
        inst.append("w")
    return [x.upper() if (r.random() < 0.3 and x not in "bnw") else x for x in inst]


DEEP = [("(", "a", ")"), ("[", "a", "]"), ("f(", "a", ")")]


def deep_transparency(ctx):
    """Expressions nested 12 000 levels (beyond limits of about ten thousand): the instance is too big for
    the trace validator, so only the clause 'transparent' is judged, real against real: the parse with a
    re-entrant expression interceptor (alone, and behind a pass-through one) reports the same number of
    errors and the same compact output as the parse without interceptors."""
    n = 12000
    cases = []
    for k, (o, m, c) in enumerate(DEEP):
        src = list(("let x = " + o * n + m + c * n).encode())
        for name, inst in (("base", []), ("r", ["r"]), ("er", ["e", "r"])):
            cases.append(dict(id="deep%d|%s" % (k, name), src=src, cfg=dict(tolerant=False, smart=False, inst=inst), compile=False, out=True, notree=True))
    res = ctx.run_harness("parse", cases, timeout=600, case_timeout_ms=60000)
    fails = []
    for k, shape in enumerate(DEEP):
        b = res["deep%d|base" % k]
        for name in ("r", "er"):
            w = res["deep%d|%s" % (k, name)]
            ctx.cov["evaluations"] += 1
            if any(x.get("panic") or x.get("hang") or x.get("crash") or "obs" not in x for x in (b, w)):
                continue      # totality at this depth is C11's subject (and its known findings), not C04's
            fb = (len(b["obs"]["errors"]), b["obs"].get("out", ""))
            fw = (len(w["obs"]["errors"]), w["obs"].get("out", ""))
            if fb != fw:
                fails.append((dict(id="deep%d" % k, gen=dict(open=shape[0], mid=shape[1], close=shape[2], n=n), inst=[x for x in name]),
                              "not_transparent", dict(errors_without=fb[0], errors_with=fw[0], same_output=fb[1] == fw[1])))
    return fails


def validate(ctx, items, which=None):
    which = which or WHICH
    cases = []
    for it in items:
        src = list(it["text"].encode("latin-1"))
        mode = dict(tolerant=it.get("tolerant", False), smart=it.get("smart", False))
        cases.append(dict(id=it["id"] + "|base", src=src, cfg=dict(mode), compile=False, out=True))
        cases.append(dict(id=it["id"] + "|with", src=src, cfg=dict(mode, inst=it["inst"], builds=it.get("builds", 1)), compile=False, out=True))
    res = ctx.run_harness("parse", cases, case_timeout_ms=5000)
    recs, fails = [], []

    def obs_of(o):
        return dict(toks=[dict(ty=k["ty"], lit=k["lit"], nl=k["nl"], ok=k["ok"], sl=k["sl"], sc=k["sc"], ch0=k["ch0"]) for k in o["toks"]],
                    tree=o["tree"], nerr=len(o["errors"]), err=o["err"],
                    errpos=[[e["sl"], e["sc"], e["el"], e["ec"], e["msg"]] for e in o["errors"]], out=o.get("out", ""))
    for it in items:
        rb, rw = res[it["id"] + "|base"], res[it["id"] + "|with"]
        bad = None
        for r in (rb, rw):
            if r.get("panic") or r.get("hang") or r.get("crash") or "obs" not in r:
                bad = dict(panic=r.get("panic"), hang=r.get("hang"), crash=r.get("crash"))
        if bad:
            fails.append((it, "total", bad))
            continue
        ow = rw["obs"]
        rec = obs_of(ow)
        rec.update(id=it["id"], inst=[x.lower() for x in it["inst"] if x.lower() not in "bnw"], tolerant=it.get("tolerant", False), smart=it.get("smart", False),
                   plog=[dict(kind=e["kind"], id=e["id"], ph=e["ph"], tok=e["tok"], ctx=e["ctx"], infn=e["infn"]) for e in ow["plog"]],
                   tlog=[dict(id=e["id"], ph=e["ph"], l=e["l"], c=e["c"], ch=e["ch"]) for e in ow["tlog"]],
                   ctx=ow["ctx"], infn=ow["infn"], base=obs_of(rb["obs"]))
        recs.append(rec)
    byid = {it["id"]: it for it in items}
    obs = {r["id"]: r for r in recs}
    if recs:
        t = ctx.tlc_trace("Trace_C04", "Trace_C04.cfg", recs, xss="128m")
        if t.tuples("REJECTED") or not t.ok:
            raise vlib.Infra("Trace_C04 did not consume the trace: %s" % (t.error or t.tuples("REJECTED")))
        for tid, clauses in render.parse_fail_lines(t.out, "FAIL" if which == "C04" else "FAIL16"):
            o = obs[tid]
            fails.append((byid[tid], "+".join(clauses), dict(plog=o["plog"][:40], ctx=o["ctx"], infn=o["infn"], nerr=o["nerr"], base_nerr=o["base"]["nerr"])))
        d = t.tuples("DRIFT")
        ctx.drift += len(d)
        if d:
            ctx.notes.append("drift examples: %s" % [x[1] for x in d[:5]])
        ctx.cov["traces_validated_against_impl"] += len(recs)
    ctx.cov["evaluations"] += len(cases)
    return fails


def build_items(ctx, quick):
    exported, mf = c02.mc_export(ctx, "MC_C04", "MC_C04_quick.cfg" if quick else "MC_C04_thorough.cfg")
    items, seen = [], set()
    for n, e in enumerate(exported):
        text = render.toks_to_text(e["toks"], ctx.rng, ["plain", "crlf", "comment", "tight"][n % 4])
        inst = decorate(ctx, e["inst"], n)
        key = (text, tuple(inst))
        if key in seen:
            continue
        seen.add(key)
        items.append(dict(id="m%d" % n, text=text, inst=inst, builds=1 + n % 3))
        if n % 5 == 0:      # the input ends inside a comment / in trailing blanks, without a final line break
            tail = [" // end", "//", "\n\n// last line", "  \t", " // a\r\n// b"][(n // 5) % 5]
            items.append(dict(id="m%dt" % n, text=text + tail, inst=inst if any(x in "tT" for x in inst) else inst + ["t"], builds=1 + n % 2))
    # deep nestings (sampled behaviours of the same spec: tlc -simulate)
    deep = ctx.tlc("MC_C04", "MC_C04_deep.cfg", workers=4, timeout=1200, xss="256m", simulate="num=%d" % (5 if quick else 40),
                   extra=["-depth", "16", "-seed", str(ctx.seed)])
    if not deep.ok:
        raise vlib.Infra("MC_C04 (deep, simulate) reports an error: %s" % deep.error)
    dl = deep.json_lines()
    ctx.rng.shuffle(dl)
    for n, e in enumerate(dl[:300 if quick else 3000]):
        items.append(dict(id="d%d" % n, text=render.toks_to_text(e["toks"]), inst=decorate(ctx, e["inst"], n), builds=1 + n % 2))
    ctx.log("deep nestings: %d sampled of %d simulated states" % (min(len(dl), 300 if quick else 3000), len(dl)))
    from props import scale
    big = ("nest_paren", "nest_not", "nest_arr", "nest_call", "nest_blk", "nest_fn", "rep_call0", "rep_if_else")
    for n, s in enumerate(x for x in scale.items(ctx, quick) if x["n"] <= 130 or (x["fam"] in big and x["n"] <= 300 and x["id"].endswith("sp"))
                          or (x["fam"] in ("nest_blk", "nest_fn") and x["n"] >= 1100)):       # beyond a thousand open contexts
        inst = [["r"], ["s", "e"], ["e", "r", "s"], ["s"], ["t", "s", "r"]][n % 5]
        if s["n"] >= 1100:
            if not s["id"].endswith("sp"):
                continue
            # quick tier: only a token interceptor (the walk over a log of thousands of parse steps is left to the thorough tier)
            inst = ["t"] if quick else ["s"]
        items.append(dict(id=s["id"], text=s["text"], inst=inst, builds=1))
    nvalid = len(items)
    # malformed inputs: token strings of the C11 enumerator, with longer installation histories
    mc = ctx.tlc("MC_C11", "MC_C11_quick2.cfg" if quick else "MC_C11_thorough2.cfg", timeout=3000, xss="256m")
    if not mc.ok:
        raise vlib.Infra("MC_C11 reports an error on the model: %s" % mc.error)
    mal = [render.kinds_to_text(e["ks"], e["nl"]) for e in mc.json_lines()]
    mm = ctx.tlc("MC_C11M", "MC_C11M_quick.cfg" if quick else "MC_C11M_thorough.cfg", timeout=3000, xss="256m")
    if not mm.ok:
        raise vlib.Infra("MC_C11M reports an error on the model: %s" % mm.error)
    mut = [render.toks_to_text(e["toks"]) for e in mm.json_lines()]
    ctx.rng.shuffle(mal)
    ctx.rng.shuffle(mut)
    mal = mal[:1000 if quick else 10000] + mut[:3000 if quick else 40000]
    mal += ["#!/usr/bin/env xjs\nlet a = 1\nf(a)", "#! x\na + b", "#!\n"] + ["#!x\n" + t for t in mut[:40]]
    for n, text in enumerate(mal):
        k = ctx.rng.randint(1, 8)
        inst = [ctx.rng.choice("sertSERTbn") for _ in range(k)]
        tol, smart = ctx.rng.choice([(False, False), (True, False), (False, True), (True, True)])
        items.append(dict(id="x%d" % n, text=text, inst=inst, tolerant=tol, smart=smart, builds=1 + n % 2))
    return items, nvalid, len(mf)


def run(ctx, which=None):
    which = which or WHICH
    quick = ctx.tier == "quick"
    items, nvalid, nmf = build_items(ctx, quick)
    ctx.cov["programs_with_histories"] = nvalid
    ctx.cov["malformed_inputs"] = len(items) - nvalid
    ctx.cov["model_failures"] = nmf
    ctx.cov["samples"] = [dict(text=i["text"], inst=i["inst"]) for i in (items[3], items[nvalid // 2], items[-1])]
    fails = validate(ctx, items, which)
    ctx.cov["distinct_nontrivial"] = len(items)
    ctx.cov["failing_inputs"] = len(fails)
    fails.sort(key=lambda f: len(f[0]["text"]) + len(f[0]["inst"]))
    done = {}
    for it, clause, detail in fails:
        if done.get(clause, 0) >= 3:
            continue
        tries = getattr(ctx, '_tries', None) or {}
        ctx._tries = tries
        tries[clause] = tries.get(clause, 0) + 1
        if tries[clause] > 12:
            continue    # enough attempts to reproduce this clause
        again = validate(ctx, [dict(it, id="re")], which)
        if again and again[0][1] == clause:
            done[clause] = done.get(clause, 0) + 1
            ctx.violation(dict(input=list(it["text"].encode("latin-1")), text=it["text"], inst=it["inst"], builds=it.get("builds", 1),
                               tolerant=it.get("tolerant", False), smart=it.get("smart", False)), clause, detail)
        else:
            ctx.notes.append("unreproduced failure on %r" % it["text"])
    if which == "C04":
        d1 = deep_transparency(ctx)
        if d1:
            d2 = {f[0]["id"] + "".join(f[0]["inst"]) for f in deep_transparency(ctx)}      # reproduced in fresh processes
            for it, clause, detail in d1:
                if it["id"] + "".join(it["inst"]) in d2:
                    ctx.violation(dict(gen=it["gen"], inst=it["inst"]), clause, detail)
        ctx.assumptions += ["'parse step' = one invocation of the statement / expression parse function; the steps of an error-free parse are read off the real tree (Requests in XjsGrammar)",
                            "with a re-entrant expression interceptor in the chain, the interceptors installed after it are not reached (it does not call next); order and once-per-step are judged for the interceptors up to and including it",
                            "token interceptors: order is not claimed by the statement; once per token and the lexer position are judged for each of them"]
    else:
        ctx.assumptions += ["directly inside a function body CurrentContext() may answer FunctionContext or BlockContext (the body is a block owned by a function); IsInFunction() is judged exactly"]
    ctx.finish(LEVEL, "installation histories of <= MaxInst statement/expression interceptors (TLC) extended by seed with 0..2 token interceptors and "
               "plugin-style installation x programs (statement templates, operator spines, nestings up to NestDepth through declarations, "
               "function expressions in arguments/objects/arrays/conditions, blocks) + seeded malformed token strings with histories of 1..8 "
               "interceptors in the four parser modes; non-trivial = distinct (text, history)", exhaustive=False)


def replay(ctx, v, which=None):
    which = which or WHICH
    c = v["case"]
    if c.get("gen"):
        f = [x for x in deep_transparency(ctx) if x[0]["gen"] == c["gen"] and x[0]["inst"] == c["inst"]]
        print("replay %s:" % which, [x[1] for x in f])
        if f:
            print("VIOLATION property=%s replay=(same input)" % which)
        os._exit(1 if f else 0)
    f = validate(ctx, [dict(id="replay", text=c["text"], inst=c["inst"], builds=c.get("builds", 1), tolerant=c.get("tolerant", False), smart=c.get("smart", False))], which)
    print("replay %s:" % which, [x[1] for x in f])
    if f:
        print("VIOLATION property=%s replay=(same input)" % which)
    os._exit(1 if f else 0)
