"""C01 Transpilation preserves program behaviour.
MC_C01 (TLC): executable, terminating programs of the subset - print(e) for every value expression
up to Depth (every operator pair and side), every sequence of <= MaxStmts statement templates
(closures, recursion, loops, if/else chains, blocks, hazard-leading statements, thrown errors) -
rendered in layouts, exported with the printer model's texts.  Each text is spelled in several gap
spellings (LF, CRLF, comments, blank lines, tight, wide, single quotes), compiled by the REAL
compiler in compact and pretty configurations with and without source map; the source and every
distinct output are run by a JavaScript engine (V8) under a prelude that is not compiled.
Trace_C01 (TLC): transcripts equal (verdict); token-stream lemma and printer-model drift."""
import os
from lib import vlib, render
from props import c02

LEVEL = "translation_validation"
CFGS = ["compact", "compact+map", "pretty:default:semi", "pretty:default:nosemi", "pretty:tab:semi", "pretty:tab:nosemi",
        "pretty:0:semi", "pretty:4:nosemi", "pretty:default:semi+map", "pretty:tab:nosemi+map"]
MODEL = ["compact", "pretty:default:semi", "pretty:tab:nosemi"]
STYLES = ["plain", "crlf", "comment", "blank", "tight", "wide", "squote", "mixed"]
PRELUDE = ("var a = 1, b = 2, c = 0, s = 's', o = {k: 1, j: 5};"
           "var f = function (x, y) { return y === undefined ? x : [x, y]; };")


def proj(toks):
    from props import c06
    return [[k["ty"], list(c06.unsafe(k["lit"])) if k["ty"] in ("STRING", "RAW_STRING") else k["lit"]]
            for k in toks if k["ty"] not in ("SEMICOLON", "EOF")]


def validate(ctx, items):
    cases = [dict(id=it["id"], src=list(it["text"].encode("latin-1")), cfgs=CFGS, trace=[]) for it in items]
    res = ctx.run_harness("compile", cases, case_timeout_ms=8000)
    keep, progs, fails = [], [], []
    rejected = 0
    for it in items:
        r = res[it["id"]]
        if r.get("panic") or r.get("hang") or r.get("crash") or "obs" not in r:
            fails.append((it, "total", dict(panic=r.get("panic"), hang=r.get("hang"), crash=r.get("crash"))))
            continue
        o = r["obs"]
        if o["snerr"] > 0:
            rejected += 1
            # a fixture may use syntax of a plugin (===), a literal shape of MC_C07 may not be a literal at all (`7e+`):
            # not in the subset; C07 / C02 judge acceptance of literals and programs
            if not str(it["id"]).startswith("fix") and not it.get("literal"):
                fails.append((it, "subset_program_rejected", dict(err0=o.get("serr0"))))
            continue
        if any(x.get("panic") for x in o["outs"]):
            fails.append((it, "total", dict(panic=[x["panic"] for x in o["outs"] if x.get("panic")][0])))
            continue
        it = dict(it, outs={x["cfg"]: x for x in o["outs"]}, stoks=o["stoks"])
        keep.append(it)
        # the text holds the source BYTES (as Latin-1 characters); an engine reads them as UTF-8
        progs.append(dict(id=it["id"] + "|src", code=it["text"].encode("latin-1").decode("utf-8", "replace"), prelude=PRELUDE))
        seen = {}
        for c, x in it["outs"].items():
            code = bytes(x["code"]).decode("utf-8", "replace")     # what an engine reads from a .js file
            if code not in seen:
                seen[code] = c
                progs.append(dict(id=it["id"] + "|" + c, code=code, prelude=PRELUDE))
        it["rep"] = {c: seen[bytes(x["code"]).decode("utf-8", "replace")] for c, x in it["outs"].items()}
    eng = ctx.engine_run(progs) if progs else {}
    recs, byid = [], {}
    notjs = timeouts = 0
    for it in keep:
        es = eng[it["id"] + "|src"]
        if es["end"] == "SyntaxError":
            notjs += 1
            continue
        if es["end"] == "timeout":
            timeouts += 1
            continue
        tr = lambda e: dict(out=e["out"], end=e["end"])
        recs.append(dict(id=it["id"], esrc=tr(es), eouts={c: tr(eng[it["id"] + "|" + it["rep"][c]]) for c in it["outs"]},
                         stoks=proj(it["stoks"]), otoks={c: proj(it["outs"][c]["otoks"]) for c in ("compact", "pretty:tab:nosemi")},
                         codes={c: it["outs"][c]["code"] for c in MODEL},
                         mouts={c: it["mouts"][i] for i, c in enumerate(MODEL)} if it.get("mouts") else {}))
        byid[it["id"]] = it
    ctx.cov["rejected_by_xjs"] = ctx.cov.get("rejected_by_xjs", 0) + rejected
    ctx.cov["source_not_javascript"] = ctx.cov.get("source_not_javascript", 0) + notjs
    ctx.cov["source_timeouts"] = ctx.cov.get("source_timeouts", 0) + timeouts
    if timeouts:
        raise vlib.Infra("%d generated programs did not terminate in the engine (generator bug)" % timeouts)
    if recs:
        t = ctx.tlc_trace("Trace_C01", "Trace_C01.cfg", recs, heap="4g")
        if t.tuples("REJECTED") or not t.ok:
            raise vlib.Infra("Trace_C01 did not consume the trace: %s" % (t.error or t.tuples("REJECTED")))
        obs = {r["id"]: r for r in recs}
        for tid, clauses in render.parse_fail_lines(t.out):
            o, it = obs[tid], byid[tid]
            diff = {c: dict(code=bytes(it["outs"][c]["code"]).decode("latin-1"), prints=o["eouts"][c]) for c in o["eouts"] if o["eouts"][c] != o["esrc"]}
            first = sorted(diff)[0]
            fails.append((it, "+".join(clauses), dict(source_prints=o["esrc"], differing=sorted(diff), example=diff[first])))
        ctx.cov["lemma_token_stream_differs"] = ctx.cov.get("lemma_token_stream_differs", 0) + len(t.tuples("LEMMA"))
        d = t.tuples("DRIFT")
        ctx.drift += len(d)
        if d:
            ctx.notes.append("drift examples: %s" % [byid[x[1]]["text"] for x in d[:3]])
        ctx.cov["traces_validated_against_impl"] += len(recs)
    ctx.cov["evaluations"] += len(progs)
    ctx.cov["programs"] = ctx.cov.get("programs", 0) + len(recs)
    ctx.cov["disagreements_checked"] = ctx.cov.get("disagreements_checked", 0) + len(recs) * len(CFGS)
    return fails


HAZ = ("LPAREN", "LBRACKET", "MINUS", "PLUS", "INCREMENT", "DECREMENT", "RAW_STRING", "DIVIDE")


def _hazard(e):
    t = e["toks"]
    return any(t[j].get("nl") and t[j]["ty"] in HAZ and t[j - 1]["ty"] == "SEMICOLON" for j in range(1, len(t)))


def run(ctx):
    quick = ctx.tier == "quick"
    exported, _ = c02.mc_export(ctx, "MC_C01", "MC_C01_quick.cfg" if quick else "MC_C01_thorough.cfg")
    if quick and len(exported) > 24000:
        base = [e for e in exported if e["mouts"]]
        rest = [e for e in exported if not e["mouts"]]
        ctx.rng.shuffle(rest)
        rest.sort(key=lambda e: 0 if _hazard(e) else 1)      # (stable) hazard programs are kept whatever the sample
        exported = base + rest[:24000 - len(base)]
    # programs in which a statement that begins with a bracket / sign / backtick follows `;` + line break:
    # where a comment in that gap matters (the semicolon policy of the pretty printer) - always spelled
    # with a comment there, whatever the sample
    hazard = _hazard
    forced = set()
    nh = 0
    for n, e in enumerate(exported):
        if not e["mouts"] and nh < (4000 if quick else 40000) and hazard(e):
            forced.add(n)
            nh += 1
    ctx.cov["hazard_programs_with_comment_gap"] = nh
    items, seen = [], set()
    for n, e in enumerate(exported):
        style = "plain" if e["mouts"] else ("comment" if n in forced else STYLES[n % len(STYLES)])
        text = render.toks_to_text(e["toks"], ctx.rng, style)
        if text in seen:
            continue
        seen.add(text)
        items.append(dict(id="m%d" % n, text=text, mouts=e["mouts"] or None))
    # literal-bearing programs of the literal model (MC_C07): `let v = <literal>;print(v);`
    lits, _ = c02.mc_export(ctx, "MC_C07", "MC_C07_quick.cfg")
    ctx.rng.shuffle(lits)
    for n, e in enumerate(lits[:2000 if quick else 12000]):
        items.append(dict(id="l%d" % n, text=bytes(e["src"]).decode("latin-1"), mouts=None, literal=True))
    # several literals in one compilation (same value, different delimiters / spellings)
    from props import c07
    pool = [dict(kind=e["kind"], lit=e["lit"], ref=e.get("ref")) for e in lits]
    for m in c07.multi_items(ctx, pool, 150 if quick else 2000):
        items.append(dict(id="lm" + m["id"], text=bytes(m["src"]).decode("latin-1"), mouts=None, literal=True))
    from props import c06
    for f in c06.fixture_items():       # the repository's fixtures print through console.log
        items.append(dict(id=f["id"], text=f["text"], mouts=None))
    ctx.cov["samples"] = [dict(text=items[k]["text"]) for k in (11, len(items) // 2, len(items) - 1)]
    fails = validate(ctx, items)
    ctx.cov["distinct_nontrivial"] = ctx.cov.get("programs", 0)
    ctx.cov["failing_inputs"] = len(fails)
    fails.sort(key=lambda f: len(f[0]["text"]))
    done = {}
    for it, clause, detail in fails:
        if done.get(clause, 0) >= 5:
            continue
        tries = getattr(ctx, '_tries', None) or {}
        ctx._tries = tries
        tries[clause] = tries.get(clause, 0) + 1
        if tries[clause] > 12:
            continue    # enough attempts to reproduce this clause
        again = validate(ctx, [dict(it, id="re")])
        if again and again[0][1] == clause:
            done[clause] = done.get(clause, 0) + 1
            ctx.violation(dict(input=list(it["text"].encode("latin-1")), text=it["text"]), clause, detail)
        else:
            ctx.notes.append("unreproduced failure on %r" % it["text"])
    ctx.assumptions += ["the judge is V8 (node vm, fresh context per program, prelude not compiled): printed values (typeof + canonical rendering, strings as code units, functions as 'function') and completion (normal / name of the uncaught error)",
                        "generated programs never coerce a function to a primitive (Function.prototype.toString returns source text, which any printer changes)",
                        "sources the engine rejects (e.g. a let declared twice by two templates) are outside the claim and counted"]
    ctx.finish(LEVEL, "print(e) for every value expression up to Depth parents over 4 atoms (every operator pair and side; increments, assignments, calls, "
               "member/index, array/object literals) in two statement contexts, every sequence of <= MaxStmts of ~55 statement templates; layouts: "
               "separators {;, line break, both}, line breaks {none, all} for small trees; 8 gap spellings; x %d compiler configurations; "
               "non-trivial = programs whose source the engine accepts" % len(CFGS), exhaustive=quick is False)


def replay(ctx, v):
    c = v["case"]
    f = validate(ctx, [dict(id="replay", text=c["text"])])
    print("replay C01:", [x[1] for x in f])
    if f:
        print("VIOLATION property=C01 replay=(same input)")
    os._exit(1 if f else 0)
