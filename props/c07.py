"""C07 Literal values survive transpilation.
MC_C07 (TLC): string literals (bodies of <= MaxAtoms atoms: plain / non-ASCII characters, the other
quote, every kind of escape with boundary values, both quote styles; thorough: every \\xHH and
every \\uHHHH), backtick strings, numeric literals of every shape.  Design level: the lexer model's
token literal, re-quoted like the printer does, has - under the reference semantics of XjsLiterals -
the value of the source literal.  Replay: `let v = <literal>;print(v);` is compiled by the REAL
compiler (compact and pretty) and source and outputs are run by a JavaScript engine (V8); Trace_C07
(TLC) judges transcript equality, checks the reference semantics against the engine (oracle), and
compares the model's output literal with the real one (drift)."""
import os
from lib import vlib, render
from props import c02

LEVEL = "model_checking"
CFGS = ["compact", "pretty:default:semi", "pretty:tab:nosemi", "compact+map", "pretty:4:semi+map"]


def validate(ctx, items):
    cases = [dict(id=it["id"], src=it["src"], cfgs=CFGS, trace=[]) for it in items]
    res = ctx.run_harness("compile", cases, case_timeout_ms=8000)
    progs, keep, fails = [], [], []
    skipped = 0
    for it in items:
        r = res[it["id"]]
        if r.get("panic") or r.get("hang") or r.get("crash") or "obs" not in r:
            fails.append((it, "total", dict(panic=r.get("panic"), hang=r.get("hang"), crash=r.get("crash"))))
            continue
        o = r["obs"]
        if o["snerr"] > 0:
            skipped += 1        # not an accepted program
            continue
        if any(x.get("panic") for x in o["outs"]):
            fails.append((it, "total", dict(panic=[x["panic"] for x in o["outs"] if x.get("panic")][0])))
            continue
        it = dict(it, codes={x["cfg"]: x["code"] for x in o["outs"]})
        keep.append(it)
        progs.append(dict(id=it["id"] + "|src", code=bytes(it["src"]).decode("utf-8", "surrogateescape").encode("utf-8", "surrogateescape").decode("utf-8", "replace")))
        for c, code in it["codes"].items():
            progs.append(dict(id=it["id"] + "|" + c, code=bytes(code).decode("utf-8", "replace")))
    eng = ctx.engine_run(progs) if progs else {}
    recs, byid = [], {}
    notjs = 0
    for it in keep:
        es = eng[it["id"] + "|src"]
        if es["end"] == "SyntaxError":
            notjs += 1          # the source literal is not JavaScript: nothing is claimed
            continue
        tr = lambda e: dict(out=e["out"], end=e["end"])
        recs.append(dict(id=it["id"], kind=it["kind"], lit=it["lit"], esrc=tr(es), eouts={c: tr(eng[it["id"] + "|" + c]) for c in it["codes"]},
                         codes=it["codes"], mout=it.get("mout") or [], ref=it.get("ref") or []))
        byid[it["id"]] = it
    ctx.cov["not_accepted_by_xjs"] = ctx.cov.get("not_accepted_by_xjs", 0) + skipped
    ctx.cov["source_not_javascript"] = ctx.cov.get("source_not_javascript", 0) + notjs
    if recs:
        t = ctx.tlc_trace("Trace_C07", "Trace_C07.cfg", recs)
        if t.tuples("REJECTED") or not t.ok:
            raise vlib.Infra("Trace_C07 did not consume the trace: %s" % (t.error or t.tuples("REJECTED")))
        obs = {r["id"]: r for r in recs}
        for tid, clauses in render.parse_fail_lines(t.out):
            o = obs[tid]
            fails.append((byid[tid], "+".join(clauses), dict(src=bytes(byid[tid]["src"]).decode("latin-1"), source_prints=o["esrc"],
                                                          outputs={c: dict(code=bytes(o["codes"][c]).decode("latin-1"), prints=o["eouts"][c]) for c in o["codes"] if o["eouts"][c] != o["esrc"]})))
        orc = t.tuples("ORACLE")
        if orc:
            ex = [bytes(byid[x[1]]["lit"]).decode("latin-1") for x in orc[:5]]
            raise vlib.Infra("the reference semantics of XjsLiterals disagrees with the engine on %d source literals, e.g. %r" % (len(orc), ex))
        d = t.tuples("DRIFT")
        ctx.drift += len(d)
        if d:
            ctx.notes.append("drift examples: %s" % [bytes(byid[x[1]]["lit"]).decode("latin-1") for x in d[:5]])
        ctx.cov["traces_validated_against_impl"] += len(recs)
    ctx.cov["evaluations"] += len(progs)
    return fails


def _spell(content, q):
    """content (bytes) as a literal delimited by q: only the delimiter, the backslash (and `${` in a
    backtick string) are escaped, so the three spellings of one content denote one value"""
    out = bytearray([q])
    i = 0
    while i < len(content):
        b = content[i]
        if b == q or b == 92 or (q == 96 and b == 36 and content[i + 1:i + 2] == b"{"):
            out.append(92)
        out.append(b)
        i += 1
    out.append(q)
    return bytes(out)


CONTENTS = [b'say "hi" with a ` tick', b"'", b'"', b"`", b"a\"b'c`d", b"\\", b"x", b"${a}", b"caf\xc3\xa9", b'"`', b"it's `q` \"z\" \\n"]


def multi_items(ctx, items, cap):
    """Several literals in ONE compilation: the same value spelled with different delimiters (in every
    order, and twice the same), and exported literals that denote the same value in different
    spellings (escape vs raw character).  What is remembered about one literal must not leak into
    the next."""
    out = []

    def prog(lits):
        names = ["v", "w", "u"]
        src = b"".join(b"let " + names[k].encode() + b" = " + l + b";" for k, l in enumerate(lits))
        src += b"".join(b"print(" + names[k].encode() + b");" for k in range(len(lits)))
        return src
    n = 0
    for c in CONTENTS:
        sp = [_spell(c, q) for q in (34, 39, 96)]
        combos = [(a, b) for a in sp for b in sp] + [(sp[0], sp[1], sp[2]), (sp[2], sp[0], sp[1]), (sp[1], sp[2], sp[0]), (sp[2], sp[1], sp[0])]
        for lits in combos:
            out.append(dict(id="multi%d" % n, kind="multi", src=list(prog(lits)), lit=list(lits[0]), mout=[], ref=[]))
            n += 1
    # exported literals grouped by their reference value
    groups = {}
    for it in items:
        if it["kind"] in ("str", "raw") and it.get("ref"):
            groups.setdefault(str(it["ref"]), []).append(it)
    pairs = []
    for g in groups.values():
        spell = {bytes(i["lit"]): i for i in g}
        ls = sorted(spell)[:4]
        pairs += [(a, b) for a in ls for b in ls if a != b]
    ctx.rng.shuffle(pairs)
    for a, b in pairs[:cap]:
        out.append(dict(id="multi%d" % n, kind="multi", src=list(prog((a, b))), lit=list(a), mout=[], ref=[]))
        n += 1
    ctx.cov["multi_literal_programs"] = len(out)
    return out


def run(ctx):
    quick = ctx.tier == "quick"
    exported, mf = c02.mc_export(ctx, "MC_C07", "MC_C07_quick.cfg" if quick else "MC_C07_thorough.cfg")
    items = [dict(id="m%d" % n, kind=e["kind"], src=e["src"], lit=e["lit"], mout=e["mout"], ref=e["ref"]) for n, e in enumerate(exported)]
    items += multi_items(ctx, items, 400 if quick else 4000)
    ctx.cov["model_failures"] = len(mf)
    if mf:
        ctx.notes.append("design level: the printer/lexer MODEL changes the value of %d literals (candidates; the verdict comes from the real compiler and the engine)" % len(mf))
    ctx.cov["samples"] = [dict(program=bytes(items[k]["src"]).decode("latin-1")) for k in (7, len(items) // 2, len(items) - 1)]
    fails = validate(ctx, items)
    ctx.cov["distinct_nontrivial"] = len(items)
    ctx.cov["failing_inputs"] = len(fails)
    fails.sort(key=lambda f: len(f[0]["src"]))
    done = {}
    for it, clause, detail in fails:
        if done.get(clause, 0) >= 5:
            continue
        tries = getattr(ctx, '_tries', None) or {}
        ctx._tries = tries
        tries[clause] = tries.get(clause, 0) + 1
        if tries[clause] > 12:
            continue    # enough attempts to reproduce this clause
        again = validate(ctx, [dict(it, id="re")])
        if again and again[0][1] == clause:
            done[clause] = done.get(clause, 0) + 1
            ctx.violation(dict(input=it["src"], text=bytes(it["src"]).decode("latin-1"), kind=it["kind"], lit=it["lit"]), clause, detail)
        else:
            ctx.notes.append("unreproduced failure on %r" % bytes(it["src"]))
    ctx.assumptions += ["the judge of a literal's value is V8 (node vm): strings are compared as UTF-16 code-unit sequences, numbers by String(v)",
                        "literals that xjs does not accept, or that V8 rejects as source, are outside the claim (counted)"]
    ctx.finish(LEVEL, "string literals: every body of <= MaxAtoms atoms out of ~45 (plain, non-ASCII, other quote, simple / \\\\xHH / \\\\uHHHH / \\\\u{..} / "
               "octal / line-continuation escapes with boundary values) x 2 quote styles (thorough: + every \\\\xHH and \\\\uHHHH); backtick strings "
               "over 15 atoms; 23 numeric literals; x 3 compiler configurations; non-trivial = literal programs", exhaustive=True)


def replay(ctx, v):
    c = v["case"]
    f = validate(ctx, [dict(id="replay", kind=c["kind"], src=c["input"], lit=c["lit"])])
    print("replay C07:", [x[1] for x in f])
    if f:
        print("VIOLATION property=C07 replay=(same input)")
    os._exit(1 if f else 0)
