"""C13 Parser modes differ only where documented.
MC_C13 (TLC): programs x layouts x faults (fused sibling statements, removed trailing block braces,
line-break-only separators in front of `(`/`[`); the parser model is run in the four mode
combinations and must satisfy the mode contract (design level); export.  Every exported input is
parsed by the REAL parser in the four modes (plus default mode on the `;`-variant when a bracket
starts a line) and Trace_C13 (TLC) judges the real results against C13_Failures."""
import os
from lib import vlib, render
from props import c02

LEVEL = "model_checking"
MODES = {"r00": (False, False), "r10": (True, False), "r01": (False, True), "r11": (True, True)}
STYLES = ["plain", "crlf", "comment", "tight", "wide"]


def slim(o):
    return dict(tree=o["tree"], nerr=len(o["errors"]), err=o["err"])


def validate(ctx, items):
    """items: dicts {id, kind, want, text, alt (text or None)}"""
    cases, mcases = [], []
    order = [list(MODES[k]) for k in MODES]
    for n, it in enumerate(items):
        # one builder, reconfigured between the four Build() calls, parsers run afterwards
        rot = order[n % 4:] + order[:n % 4]
        mcases.append(dict(id=it["id"], src=list(it["text"].encode()), order=rot))
        if it.get("alt"):
            cases.append(dict(id=it["id"] + "|ra", src=list(it["alt"].encode()), cfg=dict(tolerant=False, smart=False), compile=False))
        if n % 7 == 0:   # and separately built parsers, one builder per mode
            for k, (tol, smart) in MODES.items():
                cases.append(dict(id=it["id"] + "|" + k, src=list(it["text"].encode()), cfg=dict(tolerant=tol, smart=smart), compile=False))
    res = ctx.run_harness("parse", cases, case_timeout_ms=5000) if cases else {}
    mres = ctx.run_harness("parsemodes", mcases, case_timeout_ms=5000)
    recs, fails = [], []
    for n, it in enumerate(items):
        rec = dict(id=it["id"], kind=it["kind"], want=it["want"])
        m = mres[it["id"]]
        if m.get("panic") or m.get("hang") or m.get("crash") or "obs" not in m:
            fails.append((it, "total", dict(panic=m.get("panic"), hang=m.get("hang"), crash=m.get("crash"))))
            continue
        for k in MODES:
            rec[k] = m["obs"][k]
        rec["toks"] = [dict(ty=x["ty"], nl=x["nl"]) for x in m["obs"]["toks"]]
        bad = None
        for k in (list(MODES) if n % 7 == 0 else []) + (["ra"] if it.get("alt") else []):
            r = res[it["id"] + "|" + k]
            if r.get("panic") or r.get("hang") or r.get("crash") or "obs" not in r:
                bad = dict(mode=k, panic=r.get("panic"), hang=r.get("hang"), crash=r.get("crash"))
                break
            if k == "ra":
                rec["ra"] = slim(r["obs"])
            elif slim(r["obs"]) != rec[k]:
                # a parser built from a shared, later reconfigured builder must behave like one
                # built from its own builder ("builder options copied into each parser")
                bad = dict(mode=k, shared_builder=rec[k], own_builder=slim(r["obs"]))
                break
        if bad:
            fails.append((it, "total" if "panic" in bad else "parser_from_shared_builder_differs", bad))
            continue
        if "ra" not in rec:
            rec["ra"] = rec["r00"]
        recs.append(rec)
    byid = {it["id"]: it for it in items}
    obs = {r["id"]: r for r in recs}
    if recs:
        t = ctx.tlc_trace("Trace_C13", "Trace_C13.cfg", recs)
        if t.tuples("REJECTED") or not t.ok:
            raise vlib.Infra("Trace_C13 did not consume the trace: %s" % (t.error or t.tuples("REJECTED")))
        for tid, clauses in render.parse_fail_lines(t.out):
            o = obs[tid]
            fails.append((byid[tid], "+".join(clauses), {k: o[k] for k in ("r00", "r10", "r01", "r11", "ra")}))
        ctx.cov["traces_validated_against_impl"] += len(recs)
    ctx.cov["evaluations"] += len(cases) + 4 * len(mcases)
    return fails


def run(ctx):
    quick = ctx.tier == "quick"
    exported, mf = c02.mc_export(ctx, "MC_C13", "MC_C13_quick.cfg" if quick else "MC_C13_thorough.cfg")
    items, seen, kinds = [], set(), {}
    for n, e in enumerate(exported):
        style = STYLES[n % len(STYLES)]
        text = render.toks_to_text(e["toks"], ctx.rng, style)
        if (text, e["kind"]) in seen:
            continue
        seen.add((text, e["kind"]))
        alt = render.toks_to_text(e["alt"], ctx.rng, style) if e["alt"] else None
        items.append(dict(id="m%d" % n, kind=e["kind"], want=e["want"], text=text, alt=alt))
        kinds[e["kind"]] = kinds.get(e["kind"], 0) + 1
    from props import scale
    for s in scale.items(ctx, quick):
        items.append(dict(id=s["id"], kind="same", want=s["want"], text=s["text"], alt=None))
        kinds["same"] = kinds.get("same", 0) + 1
    ctx.cov["by_kind"] = kinds
    ctx.cov["samples"] = [dict(kind=i["kind"], text=i["text"], alt=i["alt"]) for i in
                          [next(x for x in items if x["kind"] == k) for k in sorted(kinds)]]
    fails = validate(ctx, items)
    ctx.cov["distinct_nontrivial"] = len(items)
    ctx.cov["failing_inputs"] = len(fails)
    ctx.cov["model_failures"] = len(mf)
    if mf:
        ctx.notes.append("the parser MODEL violates the mode contract on %d cases (candidates only)" % len(mf))
    fails.sort(key=lambda f: len(f[0]["text"]))
    done = {}
    for it, clause, detail in fails:
        if done.get(clause, 0) >= 3:
            continue
        tries = getattr(ctx, '_tries', None) or {}
        ctx._tries = tries
        tries[clause] = tries.get(clause, 0) + 1
        if tries[clause] > 12:
            continue    # enough attempts to reproduce this clause
        again = validate(ctx, [dict(it, id="re")])
        if again and again[0][1] == clause:
            done[clause] = done.get(clause, 0) + 1
            ctx.violation(dict(input=list(it["text"].encode()), text=it["text"], alt=it["alt"], kind=it["kind"], want=it["want"]), clause, detail)
        else:
            ctx.notes.append("unreproduced failure on %r" % it["text"])
    ctx.assumptions += ["two statements 'fused' on one line are claimed only where the first cannot absorb the first token of the second and strict mode rejects the text",
                        "'as if a semicolon preceded it' is judged when the text with the semicolon is accepted by default mode"]
    ctx.finish(LEVEL, "programs of XjsPrograms (operator spines in statement contexts, statement-template sequences) x separators x {no, all} "
               "line breaks, + every fusable sibling boundary, + every count of removed trailing block braces, + line-break-only separators "
               "before `(`/`[`; each parsed by the real parser in 4 modes; non-trivial = distinct (text, kind)", exhaustive=True)


def replay(ctx, v):
    c = v["case"]
    f = validate(ctx, [dict(id="replay", kind=c["kind"], want=c["want"], text=c["text"], alt=c["alt"])])
    print("replay C13:", [x[1] for x in f])
    if f:
        print("VIOLATION property=C13 replay=(same input)")
    os._exit(1 if f else 0)
