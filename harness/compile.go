package main

import (
	"encoding/json"
	"github.com/xjslang/xjs/sourcemap"

	"github.com/xjslang/xjs/ast"
	"github.com/xjslang/xjs/lexer"
	"github.com/xjslang/xjs/parser"
	"github.com/xjslang/xjs/token"
)

type ctok struct {
	Ty   string   `json:"ty"`
	Lit  string   `json:"lit"`
	NL   bool     `json:"nl"`
	SL   int      `json:"sl"`
	SC   int      `json:"sc"`
	EL   int      `json:"el"`
	EC   int      `json:"ec"`
	Lead []string `json:"lead"`
}

func lexWithTrivia(src string) []ctok {
	l := lexer.NewBuilder().Build(src)
	out := []ctok{}
	for i := 0; i < 4*len(src)+16; i++ {
		t := l.NextToken()
		lead := []string{}
		for _, c := range t.LeadingComments {
			lead = append(lead, safeStr(c))
		}
		out = append(out, ctok{Ty: tokName(t.Type), Lit: safeStr(t.Literal), NL: t.AfterNewline, SL: t.Start.Line, SC: t.Start.Column,
			EL: t.End.Line, EC: t.End.Column, Lead: lead})
		if t.Type == token.EOF {
			break
		}
	}
	return out
}

type compiled struct {
	Cfg   string         `json:"cfg"`
	Code  []int          `json:"code"`
	Nerr  int            `json:"nerr"`
	Err0  string         `json:"err0"`
	Tree  *node          `json:"tree"`
	Code2 []int          `json:"code2"`
	OToks []ctok         `json:"otoks"`
	Map   map[string]any `json:"map,omitempty"`
	Ops   []wop          `json:"ops,omitempty"`
	Panic string         `json:"panic,omitempty"`
	// Unstable: a second Compile() on a Compiler that had already compiled gave another result
	// (Code/Map are then those of the later compilation)
	Unstable bool `json:"unstable,omitempty"`
}

var decoyProg = func() *ast.Program {
	p, _ := parser.NewBuilder(lexer.NewBuilder()).Build("let zq = qz + 1;\nfunction zz(zp) { return zp }\nzz(zq, \"s\");\n").ParseProgram()
	return p
}()

func mapOf(sm *sourcemap.SourceMap) map[string]any {
	if sm == nil {
		return nil
	}
	names := sm.Names
	if names == nil {
		names = []string{}
	}
	return map[string]any{"version": sm.Version, "mappings": sm.Mappings, "names": append([]string{}, names...)}
}

// compileAgain builds ONE compiler for the configuration and uses it three times: the tree, another
// program (other identifiers, other lines), the tree again.  The result of the FIRST compilation is
// read only after the later ones (a result handed out must not change afterwards): if it differs
// from the given fresh result it is returned; otherwise the third result is.  unstable reports
// whether what is returned differs from the fresh result.
func compileAgain(name string, prog *ast.Program, code1 string, sm1 map[string]any) (string, map[string]any, bool) {
	defer func() { _ = recover() }()
	cc := cfgByName(name).compiler()
	r1 := cc.Compile(prog)
	_ = cc.Compile(decoyProg)
	r3 := cc.Compile(prog)
	b1, _ := json.Marshal(sm1)
	sm1b := mapOf(r1.SourceMap)
	b1b, _ := json.Marshal(sm1b)
	if r1.Code != code1 || string(b1b) != string(b1) {
		return r1.Code, sm1b, true
	}
	sm := mapOf(r3.SourceMap)
	b3, _ := json.Marshal(sm)
	return r3.Code, sm, r3.Code != code1 || string(b3) != string(b1)
}

// compile: {"id":..,"src":[bytes],"cfgs":[names],"trace":[names]} -> the source is parsed once (default
// parser); the tree is compiled in every configuration; each output is lexed, parsed again and
// compiled again.  For the configurations in "trace" the code-writer operations are recorded
// (needs the verif build tag).
func init() {
	register("compile", func(raw json.RawMessage) (any, error) {
		var c struct {
			Src   []int    `json:"src"`
			Cfgs  []string `json:"cfgs"`
			Trace []string `json:"trace"`
		}
		if err := json.Unmarshal(raw, &c); err != nil {
			return nil, err
		}
		src := bytesOf(c.Src)
		p := parser.NewBuilder(lexer.NewBuilder()).Build(src)
		prog, _ := p.ParseProgram()
		res := map[string]any{"stoks": lexWithTrivia(src), "stree": projProgram(prog), "snerr": len(p.Errors()), "hooks": hooksOn}
		if len(p.Errors()) > 0 {
			res["serr0"] = p.Errors()[0].Message
			return res, nil
		}
		traced := map[string]bool{}
		for _, n := range c.Trace {
			traced[n] = true
		}
		outs := []compiled{}
		for _, name := range c.Cfgs {
			var code, perr string
			var sm map[string]any
			var ops []wop
			if traced[name] {
				ops = traceWriter(func() { code, sm, perr = safeCompile(name, prog) })
			} else {
				code, sm, perr = safeCompile(name, prog)
			}
			unstable := false
			if perr == "" {
				// one Compiler object compiles the same tree again: the result must not depend on it
				code, sm, unstable = compileAgain(name, prog, code, sm)
			}
			o := compiled{Cfg: name, Code: intsOf(code), Map: sm, Ops: ops, Panic: perr, Unstable: unstable}
			if perr == "" {
				p2, tr, nerr, e0 := reparse(code)
				o.Nerr, o.Err0, o.Tree = nerr, e0, tr
				if nerr == 0 {
					code2, _, _ := safeCompile(name, p2)
					o.Code2 = intsOf(code2)
				}
				o.OToks = lexWithTrivia(code)
			}
			outs = append(outs, o)
		}
		res["outs"] = outs
		return res, nil
	})
}
