package main

import (
	"encoding/json"
	"fmt"
	"reflect"
	"strconv"
	"strings"

	"github.com/xjslang/xjs/ast"
	"github.com/xjslang/xjs/compiler"
	"github.com/xjslang/xjs/lexer"
	"github.com/xjslang/xjs/parser"
	"github.com/xjslang/xjs/token"
)

// ---------------------------------------------------------------- tree projection

// node is the uniform tree shape shared with the TLA+ specs: [k, op, c].
type node struct {
	K  string  `json:"k"`
	Op string  `json:"op"`
	C  []*node `json:"c"`
}

func nd(k, op string, c ...*node) *node {
	if c == nil {
		c = []*node{}
	}
	return &node{K: k, Op: op, C: c}
}

var nilNode = func() *node { return nd("nil", "") }

// safeStr renders arbitrary bytes as a printable ASCII string (injective).
func safeStr(s string) string {
	ok := true
	for i := 0; i < len(s); i++ {
		if (s[i] < 0x20 && s[i] != '\n') || s[i] > 0x7e || s[i] == '\\' {
			ok = false
			break
		}
	}
	if ok {
		return s
	}
	var b strings.Builder
	for i := 0; i < len(s); i++ {
		c := s[i]
		switch {
		case c == '\\':
			b.WriteString("\\\\")
		case (c < 0x20 && c != '\n') || c > 0x7e:
			fmt.Fprintf(&b, "\\x%02x", c)
		default:
			b.WriteByte(c)
		}
	}
	return b.String()
}

func isNilPtr(x any) bool {
	if x == nil {
		return false
	}
	v := reflect.ValueOf(x)
	return v.Kind() == reflect.Ptr && v.IsNil()
}

// custom operator nodes created by the harness for registered operators
type customInfix struct {
	Name        string
	Left, Right ast.Expression
	Level       int
}
type customPrefix struct {
	Name  string
	Right ast.Expression
}
type customPostfix struct {
	Name string
	Left ast.Expression
}

func (c *customInfix) WriteTo(cw *ast.CodeWriter) {
	cw.WriteRune('(')
	c.Left.WriteTo(cw)
	cw.WriteString(" " + c.Name + " ")
	c.Right.WriteTo(cw)
	cw.WriteRune(')')
}
func (c *customInfix) Precedence() int { return ast.PrecedenceAtomic }
func (c *customPrefix) WriteTo(cw *ast.CodeWriter) {
	cw.WriteString(c.Name + "(")
	c.Right.WriteTo(cw)
	cw.WriteRune(')')
}
func (c *customPrefix) Precedence() int { return ast.PrecedenceAtomic }
func (c *customPostfix) WriteTo(cw *ast.CodeWriter) {
	cw.WriteRune('(')
	c.Left.WriteTo(cw)
	cw.WriteString(")" + c.Name)
}
func (c *customPostfix) Precedence() int { return ast.PrecedenceAtomic }

func projExpr(e ast.Expression) *node {
	if e == nil {
		return nilNode()
	}
	if isNilPtr(e) {
		return nd("tnil", "")
	}
	switch x := e.(type) {
	case *ast.Identifier:
		return nd("id", safeStr(x.Value))
	case *ast.IntegerLiteral:
		return nd("num", safeStr(x.Token.Literal))
	case *ast.FloatLiteral:
		return nd("flt", safeStr(x.Token.Literal))
	case *ast.StringLiteral:
		return nd("str", safeStr(x.Value))
	case *ast.MultiStringLiteral:
		return nd("raw", safeStr(x.Value))
	case *ast.BooleanLiteral:
		if x.Value {
			return nd("bool", "true")
		}
		return nd("bool", "false")
	case *ast.NullLiteral:
		return nd("null", "")
	case *ast.LetExpression:
		return nd("lete", "", projIdent(x.Name), projExpr(x.Value))
	case *ast.BinaryExpression:
		return nd("bin", x.Operator, projExpr(x.Left), projExpr(x.Right))
	case *ast.UnaryExpression:
		return nd("un", x.Operator, projExpr(x.Right))
	case *ast.PostfixExpression:
		return nd("post", x.Operator, projExpr(x.Left))
	case *ast.GroupedExpression:
		return nd("grp", "", projExpr(x.Expression))
	case *ast.CallExpression:
		c := []*node{projExpr(x.Function)}
		for _, a := range x.Arguments {
			c = append(c, projExpr(a))
		}
		return nd("call", "", c...)
	case *ast.MemberExpression:
		if x.Computed {
			return nd("idx", "", projExpr(x.Object), projExpr(x.Property))
		}
		return nd("mem", "", projExpr(x.Object), projExpr(x.Property))
	case *ast.AssignmentExpression:
		return nd("asg", "=", projExpr(x.Left), projExpr(x.Value))
	case *ast.CompoundAssignmentExpression:
		return nd("casg", x.Operator+"=", projExpr(x.Left), projExpr(x.Value))
	case *ast.FunctionExpression:
		return nd("fn", "", projIdent(x.Name), projParams(x.Parameters), projBlock(x.Body))
	case *ast.ArrayLiteral:
		c := []*node{}
		for _, a := range x.Elements {
			c = append(c, projExpr(a))
		}
		return nd("arr", "", c...)
	case *ast.ObjectLiteral:
		c := []*node{}
		for _, p := range x.Properties {
			c = append(c, projExpr(p.Key), projExpr(p.Value))
		}
		return nd("obj", "", c...)
	case *customInfix:
		return nd("cbin", x.Name, projExpr(x.Left), projExpr(x.Right))
	case *customPrefix:
		return nd("cun", x.Name, projExpr(x.Right))
	case *customPostfix:
		return nd("cpost", x.Name, projExpr(x.Left))
	}
	return nd("unknown", fmt.Sprintf("%T", e))
}

func projIdent(i *ast.Identifier) *node {
	if i == nil {
		return nilNode()
	}
	return nd("id", safeStr(i.Value))
}

func projParams(ps []*ast.Identifier) *node {
	c := []*node{}
	for _, p := range ps {
		c = append(c, projIdent(p))
	}
	return nd("params", "", c...)
}

func projBlock(b *ast.BlockStatement) *node {
	if b == nil {
		return nilNode()
	}
	return nd("blk", "", projStmts(b.Statements)...)
}

func projStmts(ss []ast.Statement) []*node {
	c := []*node{}
	for _, s := range ss {
		c = append(c, projStmt(s))
	}
	return c
}

func projStmt(s ast.Statement) *node {
	if s == nil {
		return nilNode()
	}
	if isNilPtr(s) {
		return nd("tnil", "")
	}
	switch x := s.(type) {
	case *ast.LetStatement:
		return nd("let", "", projIdent(x.Name), projExpr(x.Value))
	case *ast.ReturnStatement:
		return nd("ret", "", projExpr(x.ReturnValue))
	case *ast.ExpressionStatement:
		return nd("expr", "", projExpr(x.Expression))
	case *ast.FunctionDeclaration:
		return nd("fdecl", "", projIdent(x.Name), projParams(x.Parameters), projBlock(x.Body))
	case *ast.BlockStatement:
		return projBlock(x)
	case *ast.IfStatement:
		return nd("if", "", projExpr(x.Condition), projStmt(x.ThenBranch), projStmt(x.ElseBranch))
	case *ast.WhileStatement:
		return nd("while", "", projExpr(x.Condition), projStmt(x.Body))
	case *ast.ForStatement:
		return nd("for", "", projExpr(x.Init), projExpr(x.Condition), projExpr(x.Update), projStmt(x.Body))
	}
	if e, ok := s.(ast.Expression); ok {
		return projExpr(e)
	}
	return nd("unknown", fmt.Sprintf("%T", s))
}

func projProgram(p *ast.Program) *node {
	if p == nil {
		return nilNode()
	}
	return nd("prog", "", projStmts(p.Statements)...)
}

// ---------------------------------------------------------------- parser configuration

type customOps struct {
	Prefix  []string `json:"prefix"`
	Infix   []infixJ `json:"infix"`
	Postfix []string `json:"postfix"`
}
type infixJ struct {
	Name  string `json:"name"`
	Level int    `json:"level"`
}

type parseCfg struct {
	Tolerant bool      `json:"tolerant"`
	Smart    bool      `json:"smart"`
	SChain   []string  `json:"schain"`
	EChain   []string  `json:"echain"`
	TChain   int       `json:"tchain"`
	Custom   customOps `json:"custom"`
	ViaPlug  bool      `json:"viaplugin"` // install interceptors through Builder.Install
	// Inst, when non-empty, replaces SChain/EChain/TChain: the installation history, one letter per
	// call: s statement, e pass-through expression, r re-entrant expression, t token interceptor;
	// an upper-case letter installs through Builder.Install (a plugin).
	Inst []string `json:"inst"`
	// Builds: how many parsers are built from the builder; the LAST one is run (0 = 1)
	Builds int `json:"builds"`
}

type event struct {
	Kind string `json:"kind"`
	ID   int    `json:"id"`
	Ph   string `json:"ph"`
	Tok  int    `json:"tok"` // 1-based index of the current token in the token list (0: unknown)
	Ctx  string `json:"ctx"`
	InFn bool   `json:"infn"`
	L    int    `json:"l"`
	C    int    `json:"c"`
	Ch   int    `json:"ch"`
}

var ctxNames = map[parser.ContextType]string{parser.GlobalContext: "global", parser.FunctionContext: "function", parser.BlockContext: "block"}

// customChar maps the single-character spellings the harness gives to registered operators
var customSpell = map[string]byte{"DYN0": '^', "DYN1": '@', "DYN2": '#', "DYN3": '~', "DYN4": '?'}

type built struct {
	muted bool                  // interceptors of throwaway lexers/parsers do not log
	nested bool                 // an embedded parse is under way
	names map[token.Type]string // dynamic token type -> the name it was registered under
	lb    *lexer.Builder
	pb    *parser.Builder
	plog  *[]event
	tlog  *[]event
	regOK map[string]string
}

// buildParserBuilder assembles lexer and parser builders for a configuration, with logging
// interceptors. posIndex (start position -> token index) is filled in by the caller.
func buildParserBuilder(cfg parseCfg, posIndex map[[2]int]int) *built {
	b := &built{plog: &[]event{}, tlog: &[]event{}, regOK: map[string]string{}, names: map[token.Type]string{}}
	lb := lexer.NewBuilder()
	// dynamic token types for custom operators, in DYN0.. order
	names := []string{}
	add := func(n string) {
		for _, x := range names {
			if x == n {
				return
			}
		}
		names = append(names, n)
	}
	for _, n := range cfg.Custom.Prefix {
		add(n)
	}
	for _, x := range cfg.Custom.Infix {
		add(x.Name)
	}
	for _, n := range cfg.Custom.Postfix {
		add(n)
	}
	dyn := map[string]token.Type{}
	byChar := map[byte]token.Type{}
	for _, n := range names {
		if bt, ok := builtinByName[n]; ok {
			dyn[n] = bt
			continue
		}
		t := lb.RegisterTokenType(n)
		dyn[n] = t
		b.names[t] = n
		byChar[customSpell[n]] = t
	}
	if len(byChar) > 0 {
		lb.UseTokenInterceptor(func(l *lexer.Lexer, next func() token.Token) token.Token {
			if t, ok := byChar[l.CurrentChar]; ok && l.CurrentChar != 0 {
				tok := l.NewToken(t, string(l.CurrentChar))
				l.ReadChar()
				return tok
			}
			return next()
		})
	}
	tokInterceptor := func(id int) lexer.Interceptor {
		return func(l *lexer.Lexer, next func() token.Token) token.Token {
			if b.muted {
				return next()
			}
			*b.tlog = append(*b.tlog, event{Kind: "tok", ID: id, Ph: "enter", L: l.Line, C: l.Column, Ch: int(l.CurrentChar)})
			t := next()
			notEOF := 1
			if t.Type == token.EOF {
				notEOF = 0
			}
			*b.tlog = append(*b.tlog, event{Kind: "tok", ID: id, Ph: "exit", L: t.Start.Line, C: t.Start.Column, Ch: notEOF})
			return t
		}
	}
	if len(cfg.Inst) == 0 {
		for k := 1; k <= cfg.TChain; k++ {
			lb.UseTokenInterceptor(tokInterceptor(k))
		}
	}
	pb := parser.NewBuilder(lb)
	idx := func(p *parser.Parser) int {
		return posIndex[[2]int{p.CurrentToken.Start.Line, p.CurrentToken.Start.Column}]
	}
	install := func(f func(pb *parser.Builder)) {
		if cfg.ViaPlug {
			pb.Install(f)
		} else {
			f(pb)
		}
	}
	stmtInterceptor := func(id int) parser.Interceptor[ast.Statement] {
		return func(p *parser.Parser, next func() ast.Statement) ast.Statement {
			if b.muted {
				return next()
			}
			*b.plog = append(*b.plog, event{Kind: "stmt", ID: id, Ph: "enter", Tok: idx(p), Ctx: ctxNames[p.CurrentContext()], InFn: p.IsInFunction()})
			r := next()
			*b.plog = append(*b.plog, event{Kind: "stmt", ID: id, Ph: "exit", Tok: idx(p), Ctx: ctxNames[p.CurrentContext()], InFn: p.IsInFunction()})
			return r
		}
	}
	exprInterceptor := func(id int, reent bool) parser.Interceptor[ast.Expression] {
		return func(p *parser.Parser, next func() ast.Expression) ast.Expression {
			if b.muted && !reent {
				return next()
			}
			if b.muted {
				return p.ParseRemainingExpression(p.ParsePrefixExpression())
			}
			*b.plog = append(*b.plog, event{Kind: "expr", ID: id, Ph: "enter", Tok: idx(p), Ctx: ctxNames[p.CurrentContext()], InFn: p.IsInFunction()})
			var r ast.Expression
			if reent {
				left := p.ParsePrefixExpression()
				r = p.ParseRemainingExpression(left)
			} else {
				r = next()
			}
			*b.plog = append(*b.plog, event{Kind: "expr", ID: id, Ph: "exit", Tok: idx(p), Ctx: ctxNames[p.CurrentContext()], InFn: p.IsInFunction()})
			return r
		}
	}
	if len(cfg.Inst) == 0 {
		for k := range cfg.SChain {
			id := k + 1
			install(func(pb *parser.Builder) { pb.UseStatementInterceptor(stmtInterceptor(id)) })
		}
		for k, kind := range cfg.EChain {
			id, reent := k+1, kind == "reent"
			install(func(pb *parser.Builder) { pb.UseExpressionInterceptor(exprInterceptor(id, reent)) })
		}
	} else {
		ns, ne, nt := 0, 0, 0
		for _, letter := range cfg.Inst {
			var f func(pb *parser.Builder)
			switch strings.ToLower(letter) {
			case "s":
				ns++
				id := ns
				f = func(pb *parser.Builder) { pb.UseStatementInterceptor(stmtInterceptor(id)) }
			case "e", "r":
				ne++
				id, reent := ne, strings.ToLower(letter) == "r"
				f = func(pb *parser.Builder) { pb.UseExpressionInterceptor(exprInterceptor(id, reent)) }
			case "t":
				nt++
				id := nt
				f = func(pb *parser.Builder) { pb.LexerBuilder.UseTokenInterceptor(tokInterceptor(id)) }
			case "n":
				// a statement interceptor that, before every statement, builds ANOTHER parser from the same
				// builder and lets it parse an embedded snippet while the outer parse is under way
				f = func(pb *parser.Builder) {
					pb.UseStatementInterceptor(func(p *parser.Parser, next func() ast.Statement) ast.Statement {
						if !b.nested { // the embedded parser has these interceptors too: one level is enough
							b.nested = true
							was := b.muted
							b.muted = true
							_, _ = pb.Build("function q(k) { { k } if (k) { return function() { k } } }").ParseProgram()
							b.muted = was
							b.nested = false
						}
						return next()
					})
				}
			case "w":
				// a statement interceptor that takes over `while`: it parses the header itself and the body
				// with the public ParseStatement() - what the default path does, through the public API
				f = func(pb *parser.Builder) {
					pb.UseStatementInterceptor(func(p *parser.Parser, next func() ast.Statement) ast.Statement {
						if p.CurrentToken.Type != token.WHILE || p.PeekToken.Type != token.LPAREN {
							return next()
						}
						stmt := &ast.WhileStatement{Token: p.CurrentToken}
						p.NextToken()
						p.NextToken()
						stmt.Condition = p.ParseExpression()
						if !p.ExpectToken(token.RPAREN) {
							return nil
						}
						p.NextToken()
						stmt.Body = p.ParseStatement()
						return stmt
					})
				}
			case "b":
				// a Build() in the middle of the installation history: builders may be used at any time
				b.muted = true
				_, _ = pb.Build("a").ParseProgram()
				b.muted = false
				continue
			default:
				continue
			}
			if letter != strings.ToLower(letter) {
				pb.Install(f)
			} else {
				f(pb)
			}
		}
	}
	for _, n := range cfg.Custom.Prefix {
		name := n
		err := pb.RegisterPrefixOperator(dyn[n], func(tok token.Token, right func() ast.Expression) ast.Expression {
			return &customPrefix{Name: name, Right: right()}
		})
		b.regOK["prefix:"+n] = errStr(err)
	}
	for _, x := range cfg.Custom.Infix {
		name, level := x.Name, x.Level
		err := pb.RegisterInfixOperator(dyn[name], level, func(tok token.Token, left ast.Expression, right func() ast.Expression) ast.Expression {
			return &customInfix{Name: name, Left: left, Right: right(), Level: level}
		})
		b.regOK["infix:"+name] = errStr(err)
	}
	for _, n := range cfg.Custom.Postfix {
		name := n
		err := pb.RegisterPostfixOperator(dyn[n], func(tok token.Token, left ast.Expression) ast.Expression {
			return &customPostfix{Name: name, Left: left}
		})
		b.regOK["postfix:"+n] = errStr(err)
	}
	pb.WithTolerantMode(cfg.Tolerant).WithSmartSemicolon(cfg.Smart)
	b.lb, b.pb = lb, pb
	return b
}

var builtinByName = func() map[string]token.Type {
	m := map[string]token.Type{}
	for t, n := range tokenNames {
		m[n] = t
	}
	return m
}()

func errStr(e error) string {
	if e == nil {
		return ""
	}
	return e.Error()
}

// ---------------------------------------------------------------- observations

type ptok struct {
	Ty  string `json:"ty"`
	Lit string `json:"lit"`
	NL  bool   `json:"nl"`
	OK  bool   `json:"ok"`
	SL  int    `json:"sl"`
	SC  int    `json:"sc"`
	EL  int    `json:"el"`
	EC  int    `json:"ec"`
	Ch0 int    `json:"ch0"` // byte of the source at the token's start position (0 at the end)
}

// byteAt returns the byte of src at (line, col) (0-based, byte columns, LF line breaks), 0 beyond.
func byteAt(src string, line, col int) int {
	off := 0
	for l := 0; l < line; l++ {
		k := strings.IndexByte(src[off:], '\n')
		if k < 0 {
			return 0
		}
		off += k + 1
	}
	if off+col < len(src) && col >= 0 {
		return int(src[off+col])
	}
	return 0
}

type perr struct {
	Msg string `json:"msg"`
	M   string `json:"m"` // message category (as in the TLA+ model)
	SL  int    `json:"sl"`
	SC  int    `json:"sc"`
	EL  int    `json:"el"`
	EC  int    `json:"ec"`
	At  int    `json:"at"` // index of the first token with exactly this range (0: none)
}

func msgCategory(m string) string {
	switch {
	case strings.HasSuffix(m, " expected") && strings.HasPrefix(m, "semicolon or newline"):
		return "semicolon"
	case strings.HasPrefix(m, "unclosed block"):
		return "unclosed"
	case strings.HasSuffix(m, " expected"):
		return "expected"
	case strings.HasPrefix(m, "unexpected "):
		return "unexpected"
	case strings.HasPrefix(m, "invalid "):
		return "invalid"
	case strings.HasPrefix(m, "declaration "):
		return "declaration"
	case strings.HasPrefix(m, "return outside"):
		return "return"
	case strings.HasSuffix(m, "as integer"):
		return "badint"
	case strings.HasSuffix(m, "as float"):
		return "badfloat"
	}
	return "other"
}

// lexForParser lexes src with the given lexer builder into the token list the parser will see
// (up to and including the first EOF).
func lexForParser(lb *lexer.Builder, src string, names ...map[token.Type]string) []ptok {
	tokName := func(t token.Type) string {
		if len(names) > 0 {
			if n, ok := names[0][t]; ok {
				return n
			}
		}
		return tokName(t)
	}
	l := lb.Build(src)
	out := []ptok{}
	limit := 4*len(src) + 16
	for {
		t := l.NextToken()
		ok := true
		switch t.Type {
		case token.INT:
			_, err := strconv.ParseInt(t.Literal, 0, 64)
			ok = err == nil
		case token.FLOAT:
			_, err := strconv.ParseFloat(t.Literal, 64)
			ok = err == nil
		}
		out = append(out, ptok{Ty: tokName(t.Type), Lit: safeStr(t.Literal), NL: t.AfterNewline, OK: ok,
			SL: t.Start.Line, SC: t.Start.Column, EL: t.End.Line, EC: t.End.Column, Ch0: byteAt(src, t.Start.Line, t.Start.Column)})
		if t.Type == token.EOF || len(out) > limit {
			return out
		}
	}
}

type compileCfg struct {
	Name   string
	Pretty bool
	Indent string // "tab" or number of spaces
	Semi   bool
	Map    bool
}

func (c compileCfg) compiler() *compiler.Compiler {
	cc := compiler.New()
	if c.Pretty {
		opts := []compiler.PrettyPrintOption{compiler.WithSemi(c.Semi)}
		if c.Indent == "tab" {
			opts = append(opts, compiler.WithTabs())
		} else if c.Indent != "" {
			n, _ := strconv.Atoi(c.Indent)
			opts = append(opts, compiler.WithSpaces(n))
		}
		cc = cc.WithPrettyPrint(opts...)
	}
	if c.Map {
		cc = cc.WithSourceMap()
	}
	return cc
}

// parseCfgName: "compact", "pretty:<tab|n|default>:<semi|nosemi>", optional "+map"
func cfgByName(name string) compileCfg {
	c := compileCfg{Name: name}
	base := name
	if strings.HasSuffix(base, "+map") {
		c.Map = true
		base = strings.TrimSuffix(base, "+map")
	}
	if strings.HasPrefix(base, "pretty") {
		c.Pretty = true
		c.Semi = true
		parts := strings.Split(base, ":")
		if len(parts) > 1 && parts[1] != "default" {
			c.Indent = parts[1]
		}
		if len(parts) > 2 && parts[2] == "nosemi" {
			c.Semi = false
		}
	}
	return c
}

var allCompileCfgs = []string{"compact", "compact+map", "pretty:default:semi", "pretty:default:nosemi",
	"pretty:tab:semi", "pretty:tab:nosemi", "pretty:0:semi", "pretty:4:nosemi", "pretty:default:semi+map",
	"pretty:tab:nosemi+map"}

func safeCompile(name string, prog *ast.Program) (code string, sm map[string]any, perr string) {
	defer func() {
		if p := recover(); p != nil {
			perr = fmt.Sprintf("panic: %v", p)
		}
	}()
	res := cfgByName(name).compiler().Compile(prog)
	if res.SourceMap != nil {
		names := res.SourceMap.Names
		if names == nil {
			names = []string{}
		}
		sm = map[string]any{"version": res.SourceMap.Version, "mappings": res.SourceMap.Mappings, "names": names}
	}
	return res.Code, sm, ""
}

type parseObs struct {
	Toks    []ptok            `json:"toks"`
	Tree    *node             `json:"tree"`
	Err     bool              `json:"err"`
	Errors  []perr            `json:"errors"`
	PLog    []event           `json:"plog"`
	TLog    []event           `json:"tlog"`
	Ctx     string            `json:"ctx"`
	InFn    bool              `json:"infn"`
	Reg     map[string]string `json:"reg"`
	Compile map[string]string `json:"compile,omitempty"`
	Out     string            `json:"out"` // compact compilation when no error was reported ("" otherwise)
	prog    *ast.Program
}

func doParse(src string, cfg parseCfg) *parseObs {
	posIndex := map[[2]int]int{}
	b := buildParserBuilder(cfg, posIndex)
	// token list as seen by the parser (own lexer instance, logging interceptors muted afterwards)
	b.muted = true
	toks := lexForParser(b.lb, src, b.names)
	*b.tlog = (*b.tlog)[:0]
	for i, t := range toks {
		k := [2]int{t.SL, t.SC}
		if _, dup := posIndex[k]; !dup {
			posIndex[k] = i + 1
		}
	}
	for k := 1; k < cfg.Builds; k++ {
		_ = b.pb.Build(src)
	}
	b.muted = false
	p := b.pb.Build(src)
	prog, err := p.ParseProgram()
	obs := &parseObs{Toks: toks, Tree: projProgram(prog), Err: err != nil, Errors: []perr{}, PLog: *b.plog,
		TLog: *b.tlog, Ctx: ctxNames[p.CurrentContext()], InFn: p.IsInFunction(), Reg: b.regOK, prog: prog}
	for _, e := range p.Errors() {
		pe := perr{Msg: safeStr(e.Message), M: msgCategory(e.Message), SL: e.Range.Start.Line, SC: e.Range.Start.Column,
			EL: e.Range.End.Line, EC: e.Range.End.Column}
		for i, t := range toks {
			if t.SL == pe.SL && t.SC == pe.SC && t.EL == pe.EL && t.EC == pe.EC {
				pe.At = i + 1
				break
			}
		}
		obs.Errors = append(obs.Errors, pe)
	}
	return obs
}

func init() {
	// parse: {"id":..,"src":[bytes],"cfg":{...},"compile":bool} -> parseObs
	register("parse", func(raw json.RawMessage) (any, error) {
		var c struct {
			Src     []int    `json:"src"`
			Cfg     parseCfg `json:"cfg"`
			Compile bool     `json:"compile"`
			Out     bool     `json:"out"`
			NoTree  bool     `json:"notree"` // huge instances: the tree and token list are not reported (Out is the fingerprint)
		}
		if err := json.Unmarshal(raw, &c); err != nil {
			return nil, err
		}
		obs := doParse(bytesOf(c.Src), c.Cfg)
		if c.Out && len(obs.Errors) == 0 && !obs.Err {
			code, _, perr := safeCompile("compact", obs.prog)
			obs.Out = code + perr
		}
		if c.NoTree {
			obs.Tree, obs.Toks, obs.PLog, obs.TLog = nil, nil, nil, nil
		}
		if c.Compile && len(obs.Errors) == 0 && !obs.Err {
			obs.Compile = map[string]string{}
			for _, name := range allCompileCfgs {
				_, _, perr := safeCompile(name, obs.prog)
				if perr == "" {
					perr = "ok"
				}
				obs.Compile[name] = perr
			}
		}
		return obs, nil
	})
}
