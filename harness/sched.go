package main

import (
	"encoding/json"
	"fmt"
	"reflect"
	"sort"
	"strings"
	"sync"

	"github.com/xjslang/xjs/ast"
	"github.com/xjslang/xjs/debug"
	"github.com/xjslang/xjs/lexer"
	"github.com/xjslang/xjs/parser"
	"github.com/xjslang/xjs/token"
)

// A job is a script of public API calls on its OWN builders / parser / compilers:
//   ["tok", name] ["prefix", tok] ["infix", tok, level] ["postfix", tok] ["inst", letter]
//   ["mode", tolerant, smart] ["build"] ["parse"] ["compile", cfgname]
type jobJ struct {
	Src []int   `json:"src"`
	Ops [][]any `json:"ops"`
}

type jobRes struct {
	Replies []string          `json:"replies"`
	Trees   []string          `json:"trees"` // one per "parse"
	Outs    map[string]string `json:"outs"`
	Panic   string            `json:"panic,omitempty"`
	// Refs[k]: for the k-th "parse" whose parser was built EARLIER and whose builder was changed in
	// between, the result of a parser built from a fresh builder in the build-time configuration and
	// run at once ("" when the parse has no such history)
	Refs []string `json:"refs"`
}

func isChange(kind string) bool {
	switch kind {
	case "tok", "prefix", "infix", "postfix", "inst", "mode":
		return true
	}
	return false
}

// buildTimeRefs computes Refs for a job script (see jobRes.Refs).
func buildTimeRefs(j jobJ) []string {
	refs := []string{}
	lastBuild, changed := -1, false
	for k, op := range j.Ops {
		kind, _ := op[0].(string)
		switch {
		case kind == "build":
			lastBuild, changed = k, false
		case isChange(kind):
			changed = true
		case kind == "parse":
			if lastBuild >= 0 && changed {
				ops := [][]any{}
				for _, o := range j.Ops[:lastBuild+1] {
					if kd, _ := o[0].(string); isChange(kd) {
						ops = append(ops, o)
					}
				}
				ops = append(ops, []any{"parse"})
				r := runJob(jobJ{Src: j.Src, Ops: ops}, func() {})
				if len(r.Trees) > 0 {
					refs = append(refs, r.Trees[0])
				} else {
					refs = append(refs, "panic:"+r.Panic)
				}
			} else {
				refs = append(refs, "")
			}
			lastBuild, changed = -1, false // "parse" consumes the parser
		}
	}
	return refs
}

type jobState struct {
	lb     *lexer.Builder
	pb     *parser.Builder
	p      *parser.Parser
	prog   *ast.Program
	byName map[string]token.Type
	byChar map[byte]token.Type
	ninst  int
}

func tokRef(st *jobState, a string) token.Type {
	if t, ok := st.byName[a]; ok {
		return t
	}
	return builtinByName[a]
}

// runJob executes the script; gate() is called before every API call and before every token the
// job's parser pulls (so that a scheduler can interleave jobs at call and at token granularity).
func runJob(j jobJ, gate func()) (res jobRes) {
	res = jobRes{Replies: []string{}, Trees: []string{}, Outs: map[string]string{}, Refs: []string{}}
	defer func() {
		if p := recover(); p != nil {
			res.Panic = fmt.Sprintf("%v", p)
		}
	}()
	defer func() { res.Refs = buildTimeRefs(j) }()
	st := &jobState{byName: map[string]token.Type{}, byChar: map[byte]token.Type{}}
	st.lb = lexer.NewBuilder()
	parsing := false
	st.lb.UseTokenInterceptor(func(l *lexer.Lexer, next func() token.Token) token.Token {
		if parsing {
			gate()
		}
		if t, ok := st.byChar[l.CurrentChar]; ok && l.CurrentChar != 0 {
			tok := l.NewToken(t, string(l.CurrentChar))
			l.ReadChar()
			return tok
		}
		return next()
	})
	st.pb = parser.NewBuilder(st.lb)
	src := bytesOf(j.Src)
	for _, op := range j.Ops {
		gate()
		kind, _ := op[0].(string)
		arg := func(i int) string { s, _ := op[i].(string); return s }
		switch kind {
		case "tok":
			t := st.lb.RegisterTokenType(arg(1))
			st.byName[arg(1)] = t
			if ch, ok := customSpell[arg(1)]; ok {
				st.byChar[ch] = t
			}
			res.Replies = append(res.Replies, fmt.Sprintf("id%d", int(t)-int(token.DYNAMIC_TOKENS_START)))
		case "prefix":
			name := arg(1)
			err := st.pb.RegisterPrefixOperator(tokRef(st, name), func(tok token.Token, right func() ast.Expression) ast.Expression {
				return &customPrefix{Name: name, Right: right()}
			})
			res.Replies = append(res.Replies, errStr(err))
		case "infix":
			name := arg(1)
			level := int(op[2].(float64))
			err := st.pb.RegisterInfixOperator(tokRef(st, name), level, func(tok token.Token, left ast.Expression, right func() ast.Expression) ast.Expression {
				return &customInfix{Name: name, Left: left, Right: right(), Level: level}
			})
			res.Replies = append(res.Replies, errStr(err))
		case "postfix":
			name := arg(1)
			err := st.pb.RegisterPostfixOperator(tokRef(st, name), func(tok token.Token, left ast.Expression) ast.Expression {
				return &customPostfix{Name: name, Left: left}
			})
			res.Replies = append(res.Replies, errStr(err))
		case "inst":
			st.ninst++
			id := st.ninst
			switch arg(1) {
			case "s":
				st.pb.UseStatementInterceptor(func(p *parser.Parser, next func() ast.Statement) ast.Statement { return next() })
			case "e":
				st.pb.UseExpressionInterceptor(func(p *parser.Parser, next func() ast.Expression) ast.Expression { return next() })
			case "r":
				st.pb.UseExpressionInterceptor(func(p *parser.Parser, next func() ast.Expression) ast.Expression {
					return p.ParseRemainingExpression(p.ParsePrefixExpression())
				})
			case "m":
				// a statement interceptor that claims statements starting with the identifier `mark`
				st.pb.UseStatementInterceptor(func(p *parser.Parser, next func() ast.Statement) ast.Statement {
					if p.CurrentToken.Type == token.IDENT && p.CurrentToken.Literal == "mark" {
						tok := p.CurrentToken
						tok.Literal = fmt.Sprintf("marked%d", id)
						p.ExpectSemicolonASI()
						return &ast.ExpressionStatement{Expression: &ast.Identifier{Token: tok, Value: tok.Literal}}
					}
					return next()
				})
			}
		case "mode":
			st.pb.WithTolerantMode(op[1].(bool)).WithSmartSemicolon(op[2].(bool))
		case "build":
			st.p = st.pb.Build(src)
		case "parse":
			if st.p == nil {
				st.p = st.pb.Build(src)
			}
			parsing = true
			prog, _ := st.p.ParseProgram()
			parsing = false
			st.prog = prog
			errs := []string{}
			for _, e := range st.p.Errors() {
				errs = append(errs, fmt.Sprintf("%s@%d:%d", e.Message, e.Range.Start.Line, e.Range.Start.Column))
			}
			res.Trees = append(res.Trees, sexp(projProgram(prog))+" errs="+strings.Join(errs, "|"))
			st.p = nil
		case "compile":
			if st.prog != nil {
				code, sm, perr := safeCompile(arg(1), st.prog)
				m, _ := json.Marshal(sm)
				res.Outs[arg(1)] = code + "\x00" + string(m) + perr
			}
		}
	}
	return res
}

// schedule: {"jobs":[job..],"order":[job index..]} -> every job first runs ALONE (solo results), then
// all jobs run interleaved: each job in its own goroutine, the scheduler grants one turn (= one API
// call or one token) at a time following "order"; afterwards the jobs finish one after the other.
func init() {
	register("schedule", func(raw json.RawMessage) (any, error) {
		var c struct {
			Jobs  []jobJ `json:"jobs"`
			Order []int  `json:"order"`
		}
		if err := json.Unmarshal(raw, &c); err != nil {
			return nil, err
		}
		solo := make([]jobRes, len(c.Jobs))
		for i, j := range c.Jobs {
			solo[i] = runJob(j, func() {})
		}
		n := len(c.Jobs)
		turn := make([]chan struct{}, n)
		paused := make([]chan struct{}, n)
		done := make([]chan struct{}, n)
		inter := make([]jobRes, n)
		for i := 0; i < n; i++ {
			turn[i], paused[i], done[i] = make(chan struct{}), make(chan struct{}), make(chan struct{})
			i := i
			go func() {
				<-turn[i]
				inter[i] = runJob(c.Jobs[i], func() {
					paused[i] <- struct{}{}
					<-turn[i]
				})
				close(done[i])
			}()
		}
		finished := make([]bool, n)
		grant := func(i int) {
			if finished[i] {
				return
			}
			turn[i] <- struct{}{}
			select {
			case <-paused[i]:
			case <-done[i]:
				finished[i] = true
			}
		}
		for _, i := range c.Order {
			if i >= 0 && i < n {
				grant(i)
			}
		}
		for i := 0; i < n; i++ {
			for !finished[i] {
				grant(i)
			}
		}
		after := make([]jobRes, len(c.Jobs))
		for i, j := range c.Jobs {
			after[i] = runJob(j, func() {})
		}
		return map[string]any{"solo": solo, "inter": inter, "after": after}, nil
	})

	// compileorders: {"src":[bytes],"order":[cfg names]} -> parse once; compile in the given order on
	// the SAME tree; each result next to the result of compiling a freshly parsed tree alone; deep
	// snapshots of the tree before and after; debug.ToString of the program and of each statement.
	register("compileorders", func(raw json.RawMessage) (any, error) {
		var c struct {
			Src   []int    `json:"src"`
			Order []string `json:"order"`
		}
		if err := json.Unmarshal(raw, &c); err != nil {
			return nil, err
		}
		src := bytesOf(c.Src)
		parse := func() *ast.Program {
			p := parser.NewBuilder(lexer.NewBuilder()).Build(src)
			prog, _ := p.ParseProgram()
			return prog
		}
		prog := parse()
		before := deepSnapshot(prog)
		shared, fresh := []string{}, []string{}
		for _, name := range c.Order {
			code, sm, perr := safeCompile(name, prog)
			m, _ := json.Marshal(sm)
			shared = append(shared, code+"\x00"+string(m)+perr)
			code2, sm2, perr2 := safeCompile(name, parse())
			m2, _ := json.Marshal(sm2)
			fresh = append(fresh, code2+"\x00"+string(m2)+perr2)
		}
		after := deepSnapshot(prog)
		compact, _, _ := safeCompile("compact", parse())
		stmts, stmtsCompact := []string{}, []string{}
		for _, s := range prog.Statements {
			stmts = append(stmts, debug.ToString(s))
			c1, _, _ := safeCompile("compact", &ast.Program{Statements: []ast.Statement{s}})
			stmtsCompact = append(stmtsCompact, c1)
		}
		return map[string]any{"shared": shared, "fresh": fresh, "tree_unchanged": before == after, "debug": debug.ToString(prog),
			"compact": compact, "stmts": stmts, "stmts_compact": stmtsCompact}, nil
	})

	// racejobs: {"jobs":[job..],"rounds":n} -> the jobs run free on 16 goroutines, n rounds each (the
	// binary is built with -race: a report on stderr is what the orchestrator looks for); results are
	// compared with the solo runs here.
	register("racejobs", func(raw json.RawMessage) (any, error) {
		var c struct {
			Jobs   []jobJ `json:"jobs"`
			Rounds int    `json:"rounds"`
		}
		if err := json.Unmarshal(raw, &c); err != nil {
			return nil, err
		}
		solo := make([]string, len(c.Jobs))
		for i, j := range c.Jobs {
			b, _ := json.Marshal(runJob(j, func() {}))
			solo[i] = string(b)
		}
		var wg sync.WaitGroup
		var mu sync.Mutex
		diffs := []string{}
		for g := 0; g < 16; g++ {
			wg.Add(1)
			g := g
			go func() {
				defer wg.Done()
				for r := 0; r < c.Rounds; r++ {
					i := (g + r) % len(c.Jobs)
					b, _ := json.Marshal(runJob(c.Jobs[i], func() {}))
					if string(b) != solo[i] {
						mu.Lock()
						diffs = append(diffs, fmt.Sprintf("job %d on goroutine %d round %d", i, g, r))
						mu.Unlock()
					}
				}
			}()
		}
		wg.Wait()
		sort.Strings(diffs)
		return map[string]any{"diffs": diffs, "runs": 16 * c.Rounds}, nil
	})
}

// deepSnapshot renders every exported and unexported field reachable from v (pointers followed).
func deepSnapshot(v any) string {
	var b strings.Builder
	seen := map[uintptr]bool{}
	var walk func(rv reflect.Value, depth int)
	walk = func(rv reflect.Value, depth int) {
		if depth > 200 {
			return
		}
		switch rv.Kind() {
		case reflect.Ptr:
			if rv.IsNil() {
				b.WriteString("nil;")
				return
			}
			if seen[rv.Pointer()] {
				b.WriteString("@;")
				return
			}
			seen[rv.Pointer()] = true
			walk(rv.Elem(), depth+1)
		case reflect.Interface:
			if rv.IsNil() {
				b.WriteString("nil;")
				return
			}
			b.WriteString(rv.Elem().Type().String() + ":")
			walk(rv.Elem(), depth+1)
		case reflect.Struct:
			b.WriteString("{")
			for i := 0; i < rv.NumField(); i++ {
				b.WriteString(rv.Type().Field(i).Name + "=")
				walk(rv.Field(i), depth+1)
			}
			b.WriteString("}")
		case reflect.Slice, reflect.Array:
			b.WriteString(fmt.Sprintf("[%d:", rv.Len()))
			for i := 0; i < rv.Len(); i++ {
				walk(rv.Index(i), depth+1)
			}
			b.WriteString("]")
		case reflect.String:
			b.WriteString(fmt.Sprintf("%q;", rv.String()))
		case reflect.Int, reflect.Int8, reflect.Int16, reflect.Int32, reflect.Int64:
			b.WriteString(fmt.Sprintf("%d;", rv.Int()))
		case reflect.Bool:
			b.WriteString(fmt.Sprintf("%v;", rv.Bool()))
		default:
			b.WriteString(rv.Kind().String() + ";")
		}
	}
	walk(reflect.ValueOf(v), 0)
	return b.String()
}
