package main

// Coverage-guided exploration (Go native fuzzing) for the two totality properties.  The targets
// contain no oracle beyond "returns": their job is to let the fuzzing engine find inputs that
// reach new code in the lexer / parser / printer.  The corpus it builds (and any crasher) is read
// back by the check driver and judged like every other input: replayed on the real code under the
// watchdog, recorded, and validated by TLC (Trace_C10 / Trace_C11).

import (
	"encoding/json"
	"os"
	"testing"

	"github.com/xjslang/xjs/compiler"
	"github.com/xjslang/xjs/lexer"
	"github.com/xjslang/xjs/parser"
	"github.com/xjslang/xjs/token"
)

func fuzzSeeds(f *testing.F) {
	for _, s := range []string{"let x = 1", "a\n++b", "f(a, b)[0].c", "\"a\\x41\\u{41}\"", "`a\\`b`", "0x1F 0b1 0o7 1.5e+3", "// c\nx"} {
		f.Add([]byte(s))
	}
	if p := os.Getenv("VERIF_FUZZ_SEEDS"); p != "" {
		b, err := os.ReadFile(p)
		if err != nil {
			f.Fatal(err)
		}
		var seeds [][]int
		if err := json.Unmarshal(b, &seeds); err != nil {
			f.Fatal(err)
		}
		for _, s := range seeds {
			f.Add([]byte(bytesOf(s)))
		}
	}
}

func FuzzLex(f *testing.F) {
	fuzzSeeds(f)
	f.Fuzz(func(t *testing.T, b []byte) {
		if len(b) > 160 {
			return
		}
		l := lexer.NewBuilder().Build(string(b))
		limit := 4*len(b) + 16
		for n := 0; ; n++ {
			if l.NextToken().Type == token.EOF {
				break
			}
			if n > limit {
				t.Fatalf("no end of input after %d tokens", n)
			}
		}
		l.NextToken()
	})
}

func FuzzParse(f *testing.F) {
	fuzzSeeds(f)
	f.Fuzz(func(t *testing.T, b []byte) {
		if len(b) > 120 {
			return
		}
		for mode := 0; mode < 4; mode++ {
			pb := parser.NewBuilder(lexer.NewBuilder())
			if mode&1 != 0 {
				pb = pb.WithTolerantMode(true)
			}
			if mode&2 != 0 {
				pb = pb.WithSmartSemicolon(true)
			}
			prog, err := pb.Build(string(b)).ParseProgram()
			if err == nil && prog != nil && mode == 0 {
				compiler.New().Compile(prog)
				compiler.New().WithPrettyPrint(compiler.WithSemi(false)).WithSourceMap().Compile(prog)
			}
		}
	})
}
