module verifharness

go 1.23.0

require github.com/xjslang/xjs v0.0.0

replace github.com/xjslang/xjs => /repo
